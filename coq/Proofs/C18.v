From Coq Require Import String.
From Coq Require Import List NArith Bool Arith Lia.
From PK.Base Require Import Bytes Lex SortedMap.
From PK.Proofs Require Import BytesLemmas SortedMapLemmas Paging.
From PK.Generated Require Import Consts.
From PK.Model Require Import C18.
Import ListNotations.

(* following continueAfter through the HTTP enumerate handler returns every entry after the first cursor exactly once, in
   order, for every page size >= 1 *)
Theorem client_enumerate_exact : forall fuel m c limit,
  ssorted m -> (1 <= limit)%nat -> (length (after c m) < fuel)%nat -> concat (client_enumerate fuel m c limit) = after c m.
Proof.
  induction fuel as [|f IH]; intros m c limit Hs Hl Hf; [lia|].
  cbn [client_enumerate]. unfold enum_response.
  destruct (Nat.ltb_spec (length (enumerate m c limit)) limit) as [Hshort|Hfull].
  - (* a short page is everything that is left *)
    cbn [concat]. rewrite app_nil_r. unfold enumerate in *. rewrite firstn_length in Hshort.
    apply firstn_all2. lia.
  - destruct (enumerate m c limit) as [|k p] eqn:E; [cbn in Hfull; lia|].
    assert (Hne : enumerate m c limit <> []) by (rewrite E; discriminate).
    pose proof (page_step m c limit Hs Hne) as Hstep. rewrite E in Hstep.
    cbn [concat]. rewrite IH; [symmetry; exact Hstep|exact Hs|exact Hl|].
    rewrite Hstep in Hf. rewrite app_length in Hf. cbn [length] in Hf. lia.
Qed.

Corollary client_enumerate_all : forall m limit, ssorted m -> (1 <= limit)%nat ->
  Forall (fun p => ltb [] (fst p) = true) m -> concat (client_enumerate (S (length m)) m [] limit) = m.
Proof.
  intros m limit Hs Hl Hne. rewrite client_enumerate_exact; try assumption; rewrite (after_all_gt [] m Hne); [reflexivity|lia].
Qed.

Lemma eff_limit_pos given default max : (1 <= default)%nat -> (1 <= max)%nat -> given <> Some (Some 0%nat) -> (1 <= eff_limit given default max)%nat.
Proof.
  intros Hd Hm Hg. unfold eff_limit. destruct given as [[n|]|]; try assumption.
  destruct (Nat.ltb_spec max n); [assumption|]. destruct n; [exfalso; apply Hg; reflexivity|lia].
Qed.

Lemma eff_limit_pos_consts : forall given, given <> Some (Some 0%nat) ->
  (1 <= eff_limit given (N.to_nat default_enumerate_size) (N.to_nat default_max_enumerate))%nat.
Proof. intros given. apply eff_limit_pos; vm_compute; repeat constructor. Qed.

(* the long-poll form of the request lists what is there too — if the handler's loop runs at all *)
Lemma wait_enumerate_lists m limit : enum_response_wait true m limit = enum_response m [] limit.
Proof. reflexivity. Qed.
Lemma wait_loop_dead_lists_nothing : enum_response_wait false [([1%N], [2%N])] 10 = ([], None) /\ fst (enum_response [([1%N], [2%N])] [] 10) = [([1%N], [2%N])].
Proof. split; reflexivity. Qed.

(* ---- stat ---- *)
Lemma dedup_refs_spec : forall refs seen r, In r (dedup_refs seen refs) <-> In r refs /\ ~ In r seen.
Proof.
  induction refs as [|x refs IH]; intros seen r; cbn [dedup_refs]; [split; [intros []|intros [[] _]]|].
  destruct (existsb (beqb x) seen) eqn:E.
  - rewrite IH. split; [intros [A B]; split; [right; exact A|exact B]|].
    intros [[<-|A] B]; [|split; assumption]. exfalso. apply B. apply existsb_exists in E as (y & Hy & Ey). apply beqb_eq in Ey. subst y. exact Hy.
  - cbn [In]. rewrite IH. split.
    + intros [<-|[A B]].
      * split; [left; reflexivity|]. intros Hin. assert (existsb (beqb x) seen = true); [|congruence]. apply existsb_exists. exists x. split; [exact Hin|apply beqb_refl].
      * split; [right; exact A|]. intros Hin. apply B. right; exact Hin.
    + intros [[<-|A] B]; [left; reflexivity|]. destruct (beqb x r) eqn:Exr.
      * apply beqb_eq in Exr. left; exact Exr.
      * right. split; [exact A|]. intros [->|Hin]; [rewrite beqb_refl in Exr; discriminate|contradiction].
Qed.

Lemma dedup_refs_nodup : forall refs seen, NoDup (dedup_refs seen refs).
Proof.
  induction refs as [|x refs IH]; intros seen; cbn [dedup_refs]; [constructor|]. destruct (existsb (beqb x) seen); [apply IH|].
  constructor; [|apply IH]. intros H. apply dedup_refs_spec in H as [_ H]. apply H. left; reflexivity.
Qed.

(* the stat handler: each asked blob that is present, once, with its size; more than the documented maximum is refused *)
Theorem stat_handler_exact : forall max m refs, (length refs <= max)%nat ->
  exists found, stat_handler max m refs = StatOk found /\ NoDup (map fst found) /\
    forall r v, In (r, v) found <-> In r refs /\ lookup r m = Some v.
Proof.
  intros max m refs Hl. unfold stat_handler. destruct (Nat.ltb_spec max (length refs)); [lia|]. eexists. split; [reflexivity|]. split.
  - pose proof (dedup_refs_nodup refs []) as Hnd. induction (dedup_refs [] refs) as [|x l IHl]; [constructor|].
    inversion Hnd as [|? ? Hx Hl']; subst. cbn [flat_map]. destruct (lookup x m) as [v|]; [|apply IHl; exact Hl'].
    cbn [app map fst]. constructor; [|apply IHl; exact Hl']. intros Hin. apply Hx. apply in_map_iff in Hin as ([r' v'] & Er & Hin). cbn in Er. subst r'.
    apply in_flat_map in Hin as (y & Hy & Hin). destruct (lookup y m); [destruct Hin as [Hin|[]]; injection Hin as -> _; exact Hy|destruct Hin].
  - intros r v. rewrite in_flat_map. split.
    + intros (x & Hx & Hin). apply dedup_refs_spec in Hx as [Hx _]. destruct (lookup x m) as [v'|] eqn:E; [|destruct Hin].
      destruct Hin as [Hin|[]]. injection Hin as -> ->. split; assumption.
    + intros [Hr Hv]. exists r. split; [apply dedup_refs_spec; split; [exact Hr|intros []]|rewrite Hv; left; reflexivity].
Qed.
Lemma stat_handler_cap max m refs : (max < length refs)%nat -> stat_handler max m refs = StatTooMany.
Proof. intros H. unfold stat_handler. destruct (Nat.ltb_spec max (length refs)); [reflexivity|lia]. Qed.

(* Client.StatBlobs over distinct refs: every present blob is reported exactly once *)
Theorem client_stat_once : forall m refs, NoDup refs -> NoDup (map fst (client_stat true m refs)) /\
  forall r v, In (r, v) (client_stat true m refs) <-> In r refs /\ lookup r m = Some v.
Proof.
  intros m refs Hnd. unfold client_stat. split.
  - induction refs as [|x l IHl]; [constructor|]. inversion Hnd as [|? ? Hx Hl']; subst. cbn [flat_map]. destruct (lookup x m) as [v|]; [|apply IHl; exact Hl'].
    cbn [app map fst]. constructor; [|apply IHl; exact Hl']. intros Hin. apply Hx. apply in_map_iff in Hin as ([r' v'] & Er & Hin). cbn in Er. subst r'.
    apply in_flat_map in Hin as (y & Hy & Hin). destruct (lookup y m); [destruct Hin as [Hin|[]]; injection Hin as -> _; exact Hy|destruct Hin].
  - intros r v. rewrite in_flat_map. split.
    + intros (x & Hx & Hin). destruct (lookup x m) as [v'|] eqn:E; [|destruct Hin]. destruct Hin as [Hin|[]]. injection Hin as -> ->. split; assumption.
    + intros [Hr Hv]. exists r. split; [exact Hr|rewrite Hv; left; reflexivity].
Qed.

(* the client before its repair (D25) reported every found blob twice *)
Lemma client_stat_twice_refuted : client_stat false [([1%N], [2%N])] [[1%N]] = [([1%N], [2%N]); ([1%N], [2%N])].
Proof. reflexivity. Qed.

From Coq Require Import List NArith Bool Arith Lia.
From PK.Generated Require Import Consts.
From PK.Model Require Import C15.
Import ListNotations.

(* ================= reader ================= *)
Lemma part_ind' (P : part -> Prop) :
  (forall n, P (Hole n)) -> (forall n o c, P (Blob n o c)) ->
  (forall n o ps, Forall P ps -> P (Sub n o ps)) -> forall p, P p.
Proof.
  intros HH HB HS. fix IH 1. intros [n|n o c|n o ps].
  - apply HH.
  - apply HB.
  - apply HS. induction ps as [|q r IHr]; constructor; [apply IH|exact IHr].
Qed.

(* the local fixpoints inside [chunk]/[denote_part]/[wf_part] are the global functions *)
Lemma chunk_sub n o ps offr want :
  chunk (Sub n o ps) offr want =
  let w := Nat.min (Nat.min want (n - offr)) (sum_sizes ps - (offr + o)) in read_loop ps (S w) (offr + o) w.
Proof. reflexivity. Qed.
Lemma denote_sub n o ps : denote_part (Sub n o ps) = firstn n (skipn o (denote ps)).
Proof. reflexivity. Qed.
Lemma wf_sub n o ps : wf_part (Sub n o ps) = (o + n <=? sum_sizes ps) && wf_parts ps.
Proof. reflexivity. Qed.

Lemma skipn_skipn' {A} a b (l : list A) : skipn a (skipn b l) = skipn (b + a) l.
Proof.
  revert l. induction b as [|b IH]; intros l; [reflexivity|]. destruct l as [|x l]; [destruct a; reflexivity|]. cbn. apply IH.
Qed.

Lemma skipn_firstn' {A} a n (l : list A) : skipn a (firstn n l) = firstn (n - a) (skipn a l).
Proof.
  revert n l. induction a as [|a IH]; intros n l; [rewrite Nat.sub_0_r; reflexivity|].
  destruct n as [|n]; [cbn; destruct (skipn (S a) l); reflexivity|]. destruct l as [|x l]; [cbn [firstn skipn]; rewrite firstn_nil; reflexivity|]. cbn. apply IH.
Qed.

Lemma firstn_min_len {A} a (l : list A) : firstn (Nat.min a (length l)) l = firstn a l.
Proof.
  destruct (le_lt_dec a (length l)) as [H|H]; [rewrite Nat.min_l by exact H; reflexivity|].
  rewrite Nat.min_r by lia. rewrite !firstn_all2 by lia. reflexivity.
Qed.

Lemma firstn_repeat {A} (x : A) a n : firstn a (repeat x n) = repeat x (Nat.min a n).
Proof. revert n. induction a as [|a IH]; intros [|n]; cbn; try reflexivity. rewrite IH. reflexivity. Qed.
Lemma skipn_repeat {A} (x : A) a n : skipn a (repeat x n) = repeat x (n - a).
Proof. revert n. induction a as [|a IH]; intros [|n]; cbn; try reflexivity. apply IH. Qed.

Lemma firstn_split_skipn {A} k w (l : list A) : k <= w -> firstn k l ++ firstn (w - k) (skipn k l) = firstn w l.
Proof.
  revert w l. induction k as [|k IH]; intros w l H; [rewrite Nat.sub_0_r; reflexivity|].
  destruct w as [|w]; [lia|]. destruct l as [|x l]; [cbn [firstn skipn app]; rewrite firstn_nil; reflexivity|]. cbn. f_equal. apply IH. lia.
Qed.

Definition part_ok (p : part) : Prop :=
  wf_part p = true ->
  length (denote_part p) = part_size p /\
  forall offr want, offr < part_size p -> chunk p offr want = firstn want (skipn offr (denote_part p)).

Lemma denote_length ps : Forall part_ok ps -> wf_parts ps = true -> length (denote ps) = sum_sizes ps.
Proof.
  induction 1 as [|p ps Hp _ IH]; [reflexivity|]. cbn [wf_parts denote sum_sizes]. intros W.
  apply andb_true_iff in W as [W1 W2]. rewrite app_length, (proj1 (Hp W1)), IH by exact W2. reflexivity.
Qed.

(* readerForOffset + ReadFull: a prefix of what the schema denotes from [off], ending at the part boundary *)
Lemma rfo_spec ps : Forall part_ok ps -> wf_parts ps = true -> forall off want, off < sum_sizes ps ->
  exists k, rfo ps off want = firstn k (skipn off (denote ps)) /\ k <= want /\ k <= sum_sizes ps - off /\ (0 < want -> 0 < k).
Proof.
  induction 1 as [|p ps Hp Hps IH]; cbn [wf_parts sum_sizes]; intros W off want Hoff; [lia|].
  apply andb_true_iff in W as [W1 W2]. destruct (Hp W1) as [Lp Cp]. cbn [rfo denote].
  destruct (part_size p <=? off) eqn:E.
  - apply Nat.leb_le in E. destruct (IH W2 (off - part_size p) want ltac:(lia)) as (k & A & B & C & D).
    exists k. split; [|repeat split; try lia; exact D].
    rewrite A. f_equal. rewrite skipn_app, Lp. rewrite (skipn_all2 (denote_part p)) by lia. reflexivity.
  - apply Nat.leb_gt in E. rewrite (Cp off want E).
    exists (Nat.min want (part_size p - off)). split; [|repeat split; lia].
    rewrite skipn_app, Lp. replace (off - part_size p) with 0 by lia. cbn [skipn].
    rewrite firstn_app. rewrite skipn_length, Lp.
    replace (Nat.min want (part_size p - off) - (part_size p - off)) with 0 by lia. cbn [firstn]. rewrite app_nil_r.
    rewrite <- (firstn_min_len want (skipn off (denote_part p))). rewrite skipn_length, Lp. reflexivity.
Qed.

Lemma read_loop_spec ps : Forall part_ok ps -> wf_parts ps = true -> forall fuel pos want, want < fuel ->
  read_loop ps fuel pos want = firstn want (skipn pos (denote ps)).
Proof.
  intros Hok W. pose proof (denote_length ps Hok W) as LD.
  induction fuel as [|f IH]; intros pos want Hf; [lia|]. cbn [read_loop]. fold (read_loop ps).
  destruct (le_lt_dec (sum_sizes ps) pos) as [Hend|Hin].
  - (* at or past the end: readerForOffset yields nothing *)
    assert (R : rfo ps pos want = []).
    { clear -Hend. revert pos Hend. induction ps as [|p ps IHp]; intros pos Hend; [reflexivity|]. cbn [rfo sum_sizes] in *.
      assert (part_size p <=? pos = true) as -> by (apply Nat.leb_le; lia). apply IHp. lia. }
    rewrite R. rewrite skipn_all2 by lia. destruct want; reflexivity.
  - destruct (rfo_spec ps Hok W pos want Hin) as (k & A & B & C & D).
    assert (Lk : length (rfo ps pos want) = k) by (rewrite A, firstn_length, skipn_length, LD; lia).
    destruct (rfo ps pos want) as [|x c] eqn:R.
    + cbn in Lk. subst k. destruct want; [reflexivity|]. specialize (D ltac:(lia)). lia.
    + assert (Hk : 0 < k) by (cbn in Lk; lia). rewrite <- R in *. rewrite Lk. rewrite IH by lia. rewrite A.
      rewrite <- (skipn_skipn' k pos (denote ps)).
      apply firstn_split_skipn. exact B.
Qed.

Lemma all_parts_ok : forall p, part_ok p.
Proof.
  induction p as [n|n o c|n o ps IH] using part_ind'; intros W.
  - split; [apply repeat_length|]. intros offr want H. cbn [chunk denote_part]. rewrite skipn_repeat, firstn_repeat. reflexivity.
  - cbn [wf_part] in W. apply Nat.leb_le in W. split.
    + cbn [denote_part part_size]. rewrite firstn_length, skipn_length. lia.
    + intros offr want H. cbn [chunk denote_part part_size] in *. rewrite skipn_firstn', skipn_skipn', firstn_firstn.
      replace (o + offr) with (offr + o) by lia. reflexivity.
  - rewrite wf_sub in W. apply andb_true_iff in W as [W1 W2]. apply Nat.leb_le in W1.
    pose proof (denote_length ps IH W2) as LD. split.
    + rewrite denote_sub. cbn [part_size]. rewrite firstn_length, skipn_length, LD. lia.
    + intros offr want H. cbn [part_size] in H. rewrite chunk_sub, denote_sub. cbv zeta.
      rewrite read_loop_spec by (try assumption; lia).
      rewrite skipn_firstn', skipn_skipn', firstn_firstn. replace (o + offr) with (offr + o) by lia.
      rewrite <- (firstn_min_len (Nat.min want (n - offr))). rewrite skipn_length, LD. reflexivity.
Qed.

Theorem read_at_exact ps off want : wf_parts ps = true ->
  read_at ps off want = firstn want (skipn off (denote ps)).
Proof.
  intros W. assert (Hok : Forall part_ok ps) by (apply Forall_forall; intros p _; apply all_parts_ok).
  unfold read_at. destruct (sum_sizes ps <=? off) eqn:E.
  - apply Nat.leb_le in E. rewrite skipn_all2 by (rewrite (denote_length ps Hok W); exact E). destruct want; reflexivity.
  - apply read_loop_spec; [exact Hok|exact W|lia].
Qed.

(* ================= static sets ================= *)
Lemma slices_concat {A} k per (l : list A) : concat (slices k per l) ++ skipn (per * k) l = l.
Proof.
  revert l. induction k as [|k IH]; intros l; [rewrite Nat.mul_0_r; reflexivity|].
  cbn [slices concat]. rewrite <- app_assoc. replace (per * S k) with (per + per * k) by lia.
  rewrite <- skipn_skipn'. rewrite IH. apply firstn_skipn.
Qed.

Lemma slices_lengths {A} k per (l : list A) : Forall (fun s => length s <= per) (slices k per l).
Proof. revert l. induction k as [|k IH]; intros l; constructor; [rewrite firstn_length; lia|apply IH]. Qed.

Lemma set_members_merge subs : set_members (SMerge subs) = concat (map set_members subs).
Proof. cbn [set_members]. induction subs as [|x r IH]; [reflexivity|]. cbn [map concat]. rewrite <- IH. reflexivity. Qed.

Lemma div_lt_self n d : 2 <= d -> 0 < n -> n / d < n.
Proof. intros. apply Nat.div_lt; lia. Qed.

Theorem split_set_members m : 3 <= m -> forall fuel members, length members <= fuel ->
  set_members (split_set fuel m members) = members.
Proof.
  intros Hm. induction fuel as [|f IH]; intros members Hl; [reflexivity|].
  cbn [split_set]. destruct (length members <=? m) eqn:E; [reflexivity|]. apply Nat.leb_gt in E.
  set (n := length members) in *.
  assert (Hper : forall sn per, (sn, per) = (if n / m <? m then (n / m, m) else (m - 1, n / (m - 1))) ->
                 0 < per < n /\ per * sn <= n /\ 0 < sn).
  { intros sn per H. destruct (n / m <? m) eqn:E2; injection H as -> ->.
    - assert (0 < n / m) by (apply Nat.div_str_pos; lia). split; [lia|]. split; [|lia]. apply Nat.mul_div_le. lia.
    - assert (0 < n / (m - 1)) by (apply Nat.div_str_pos; lia). split; [split; [lia|apply div_lt_self; lia]|].
      split; [|lia]. rewrite Nat.mul_comm. apply Nat.mul_div_le. lia. }
  destruct (if n / m <? m then (n / m, m) else (m - 1, n / (m - 1))) as [sn per] eqn:Esp.
  destruct (Hper sn per eq_refl) as ((P1 & P2) & P3 & P4).
  rewrite set_members_merge, map_app, concat_app, map_map.
  assert (Hs : map (fun x => set_members (split_set f m x)) (slices sn per members) = slices sn per members).
  { rewrite <- (map_id (slices sn per members)) at 2. apply map_ext_in. intros s Hs. apply IH.
    pose proof (slices_lengths sn per members) as F. rewrite Forall_forall in F. specialize (F s Hs). lia. }
  rewrite Hs. destruct (per * sn <? n) eqn:E3.
  - cbn [map concat]. rewrite app_nil_r. rewrite IH.
    + apply slices_concat.
    + rewrite skipn_length. fold n. assert (1 <= per * sn) by nia. lia.
  - cbn [map concat]. rewrite app_nil_r. apply Nat.ltb_ge in E3.
    rewrite <- (slices_concat sn per members) at 2. rewrite (skipn_all2 members) by (fold n; lia). rewrite app_nil_r. reflexivity.
Qed.

Lemma max_width_merge subs : max_width (SMerge subs) = Nat.max (length subs) (fold_right (fun x a => Nat.max (max_width x) a) 0 subs).
Proof. reflexivity. Qed.

Theorem split_set_width m : 3 <= m -> forall fuel members, length members <= fuel -> 0 < fuel ->
  max_width (split_set fuel m members) <= m.
Proof.
  intros Hm. induction fuel as [|f IH]; intros members Hl Hf; [lia|].
  cbn [split_set]. destruct (length members <=? m) eqn:E; [apply Nat.leb_le in E; exact E|]. apply Nat.leb_gt in E.
  set (n := length members) in *.
  destruct (if n / m <? m then (n / m, m) else (m - 1, n / (m - 1))) as [sn per] eqn:Esp.
  assert (Hsn : sn + 1 <= m /\ 0 < per < n /\ 0 < sn).
  { destruct (n / m <? m) eqn:E2; injection Esp as <- <-.
    - apply Nat.ltb_lt in E2. assert (0 < n / m) by (apply Nat.div_str_pos; lia). lia.
    - assert (0 < n / (m - 1)) by (apply Nat.div_str_pos; lia). split; [lia|]. split; [split; [lia|apply div_lt_self; lia]|lia]. }
  destruct Hsn as (S1 & (P1 & P2) & P4).
  assert (Hf' : 0 < f) by lia.
  rewrite max_width_merge. apply Nat.max_lub.
  - rewrite app_length, map_length. assert (length (slices sn per members) = sn) as ->.
    { clear. revert members. induction sn as [|k IHk]; intros; [reflexivity|]. cbn. rewrite IHk. reflexivity. }
    destruct (per * sn <? n); cbn [length]; lia.
  - assert (G : forall l, Forall (fun x => max_width x <= m) l -> fold_right (fun x a => Nat.max (max_width x) a) 0 l <= m).
    { induction 1 as [|x l Hx _ IHl]; cbn; [lia|]. apply Nat.max_lub; assumption. }
    apply G. apply Forall_app. split.
    + apply Forall_map. apply Forall_forall. intros s Hs. apply IH; [|exact Hf'].
      pose proof (slices_lengths sn per members) as F. rewrite Forall_forall in F. specialize (F s Hs). lia.
    + destruct (per * sn <? n); [|constructor]. constructor; [|constructor]. apply IH; [|exact Hf'].
      rewrite skipn_length. fold n. assert (1 <= per * sn) by nia. lia.
Qed.

(* ================= writer: the chunker ================= *)
Section ChunkerProofs.
  Variables (maxb firstc small : N) (o : oracle).
  Hypothesis maxb_pos : (1 <= maxb)%N.
  Local Open Scope N_scope.

  (* [l] (oldest first) tiles [a, b) with non-empty pieces of at most maxb bytes *)
  Fixpoint contig (l : list cut) (a b : N) : Prop :=
    match l with
    | [] => a = b
    | c :: r => c_from c = a /\ c_from c < c_to c /\ c_to c - c_from c <= maxb /\ contig r (c_to c) b
    end.

  Lemma contig_app l1 : forall l2 a b c, contig l1 a b -> contig l2 b c -> contig (l1 ++ l2) a c.
  Proof.
    induction l1 as [|x r IH]; intros l2 a b c H1 H2; cbn in *; [subst; exact H2|].
    destruct H1 as (A & B & C & D). repeat split; try assumption. eapply IH; eassumption.
  Qed.

  Definition cinv (st : cstate) : Prop :=
    s_last st <= s_n st /\ s_bs st = s_n st - s_last st /\ s_bs st < maxb /\ contig (rev (s_cuts st)) 0 (s_last st).

  Lemma cinit_inv : cinv cinit.
  Proof. unfold cinv, cinit. cbn. repeat split; lia. Qed.

  Lemma cstep_inv st : cinv st -> cinv (cstep maxb firstc small o st) /\ s_n (cstep maxb firstc small o st) = s_n st + 1.
  Proof.
    intros (A & B & C & D). unfold cstep.
    assert (Cut : forall bits, cinv {| s_n := s_n st + 1; s_last := s_n st + 1; s_bs := 0;
                    s_cuts := {| c_from := s_last st; c_to := s_n st + 1; c_bits := bits; c_final := false |} :: s_cuts st |}).
    { intros bits. unfold cinv. cbn [s_n s_last s_bs s_cuts rev]. repeat split; try lia.
      eapply contig_app; [exact D|]. cbn. repeat split; lia. }
    assert (Go : s_bs st + 1 <> maxb -> cinv {| s_n := s_n st + 1; s_last := s_last st; s_bs := s_bs st + 1; s_cuts := s_cuts st |}).
    { intros Hne. unfold cinv. cbn [s_n s_last s_bs s_cuts]. repeat split; try lia. exact D. }
    destruct (s_bs st + 1 =? maxb) eqn:E1; [split; [apply Cut|reflexivity]|]. apply N.eqb_neq in E1.
    destruct (eof_from o <=? s_n st + 1); [split; [apply Go; exact E1|reflexivity]|].
    destruct (on_split o (s_n st + 1) && (firstc <? s_n st + 1) && (small <? s_bs st + 1)); [split; [apply Cut|reflexivity]|].
    destruct (s_n st + 1 =? firstc); [split; [apply Cut|reflexivity]|split; [apply Go; exact E1|reflexivity]].
  Qed.

  Lemma iter_inv total : cinv (N.iter total (cstep maxb firstc small o) cinit) /\ s_n (N.iter total (cstep maxb firstc small o) cinit) = total.
  Proof.
    induction total as [|t IH] using N.peano_ind; [split; [apply cinit_inv|reflexivity]|].
    rewrite N.iter_succ. destruct IH as [I E]. destruct (cstep_inv _ I) as [I' E']. split; [exact I'|]. rewrite E', E. lia.
  Qed.

  (* the chunks tile [0, total): none empty, none above the chunk size limit, nothing lost, nothing twice *)
  Theorem chunks_partition total : contig (chunks maxb firstc small o total) 0 total.
  Proof.
    unfold chunks, cfinish. destruct (iter_inv total) as [(A & B & C & D) E].
    set (st := N.iter total (cstep maxb firstc small o) cinit) in *.
    destruct (s_n st =? s_last st) eqn:F.
    - apply N.eqb_eq in F. rewrite <- E, F. exact D.
    - apply N.eqb_neq in F. cbn [rev]. eapply contig_app; [exact D|]. cbn. repeat split; lia.
  Qed.
End ChunkerProofs.

(* ================= writer: the span tree keeps the chunks in file order ================= *)
Lemma flatten_span_eq f t b ch : flatten_span (Span f t b ch) = concat (map flatten_span ch) ++ [(f, t)].
Proof. cbn [flatten_span]. f_equal. induction ch as [|x r IH]; [reflexivity|]. cbn [map concat]. rewrite <- IH. reflexivity. Qed.

Lemma take_lower_app bits stack : forall ch keep, take_lower bits stack = (ch, keep) -> stack = ch ++ keep.
Proof.
  induction stack as [|s rest IH]; intros ch keep H; cbn in H; [injection H as <- <-; reflexivity|].
  destruct (N.ltb (span_bits s) bits).
  - destruct (take_lower bits rest) as [ch' keep']. injection H as <- <-. cbn. f_equal. apply IH. reflexivity.
  - injection H as <- <-. reflexivity.
Qed.

Lemma push_span_flatten stack c : flatten_stack (push_span stack c) = flatten_stack stack ++ [(c_from c, c_to c)].
Proof.
  unfold push_span, flatten_stack. destruct (c_final c).
  - cbn [rev]. rewrite map_app, concat_app. cbn [map concat]. rewrite flatten_span_eq. cbn [map concat app]. rewrite ?app_nil_r. reflexivity.
  - destruct (take_lower (c_bits c) stack) as [ch keep] eqn:E. apply take_lower_app in E. subst stack.
    cbn [rev]. rewrite rev_app_distr, !map_app, !concat_app. cbn [map concat]. rewrite flatten_span_eq, app_nil_r.
    rewrite app_assoc. reflexivity.
Qed.

Theorem tree_flatten cuts : flatten_stack (build_tree cuts) = map (fun c => (c_from c, c_to c)) cuts.
Proof.
  unfold build_tree. rewrite <- (app_nil_l (map _ cuts)). change (@nil (N * N)) with (flatten_stack []).
  generalize (@nil span). induction cuts as [|c r IH]; intros st; cbn [fold_left map]; [rewrite app_nil_r; reflexivity|].
  rewrite IH, push_span_flatten, <- app_assoc. reflexivity.
Qed.

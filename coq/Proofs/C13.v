From Coq Require Import List NArith Bool Arith Lia.
From PK.Model Require Import C13.
Import ListNotations.

(* ---------- the judge is sound and complete for "some reading of the failed calls" ---------- *)
Theorem explain_sound : forall h s, explain s h = true -> exists choices, run_with choices s h = true.
Proof.
  induction h as [|[o x] r IH]; intros s H; [exists []; reflexivity|]. cbn [explain] in H.
  destruct x.
  - apply andb_true_iff in H as [A B]. destruct (IH _ B) as [cs Hc]. exists cs. cbn [run_with]. rewrite A, Hc. reflexivity.
  - apply andb_true_iff in H as [A B]. destruct (IH _ B) as [cs Hc]. exists cs. cbn [run_with]. rewrite A, Hc. reflexivity.
  - apply andb_true_iff in H as [A B]. destruct (IH _ B) as [cs Hc]. exists cs. cbn [run_with]. rewrite A, Hc. reflexivity.
  - apply orb_true_iff in H as [H|H]; destruct (IH _ H) as [cs Hc]; [exists (false :: cs)|exists (true :: cs)]; cbn [run_with]; exact Hc.
Qed.

Theorem explain_complete : forall h choices s, run_with choices s h = true -> explain s h = true.
Proof.
  induction h as [|[o x] r IH]; intros choices s H; [reflexivity|]. cbn [explain]. cbn [run_with] in H.
  destruct x.
  - apply andb_true_iff in H as [A B]. rewrite A. cbn. eapply IH; exact B.
  - apply andb_true_iff in H as [A B]. rewrite A. cbn. eapply IH; exact B.
  - apply andb_true_iff in H as [A B]. rewrite A. cbn. eapply IH; exact B.
  - destruct choices as [|c cs]; [discriminate|]. apply orb_true_iff. destruct c; [right|left]; eapply IH; exact H.
Qed.

(* without failures the judge is the reference map itself *)
Lemma explain_no_failures : forall h s, forallb (fun ox => match snd ox with OFailed => false | _ => true end) h = true ->
  explain s h = run_with [] s h.
Proof.
  induction h as [|[o x] r IH]; intros s H; [reflexivity|]. cbn [forallb snd] in H. apply andb_true_iff in H as [Hx Hr].
  destruct x; try discriminate; cbn [explain run_with]; rewrite IH by exact Hr; reflexivity.
Qed.

(* ---------- the gate: every token taken is given back ---------- *)
Lemma helper_balanced : forall its fb t r, t = r -> let '(t', r') := helper true its fb t r in t' = r'.
Proof.
  induction its as [|it rest IH]; intros fb t r E; cbn [helper]; [exact E|].
  destruct (sees_cancel it && fb); [exact E|]. apply IH. f_equal. exact E.
Qed.

Theorem gate_balanced : forall its, leaked true its = 0%nat.
Proof.
  intros its. unfold leaked. pose proof (helper_balanced its false 0 0 eq_refl) as H. destruct (helper true its false 0 0) as [t r]. subst. apply Nat.sub_diag.
Qed.

(* taking the token before looking at the cancellation loses one token per cancelled call (D12) *)
Lemma gate_leaks_when_started_first :
  leaked false [{| sees_cancel := false; result := WError |}; {| sees_cancel := true; result := WFound |}] = 1%nat /\
  leaked true [{| sees_cancel := false; result := WError |}; {| sees_cancel := true; result := WFound |}] = 0%nat.
Proof. split; reflexivity. Qed.

(* ---------- diskpacked: a failed index write leaves the packs exactly as they were ---------- *)
Theorem append_index_failure_undone : forall max s r, append true max s r false = s.
Proof. intros max s r. unfold append. reflexivity. Qed.

Lemma forallb_app' {A} (f : A -> bool) a b : forallb f (a ++ b) = forallb f a && forallb f b.
Proof. apply forallb_app. Qed.

Lemma walks_removelast s : walks s = true -> forallb (fun p => negb (memN 0%N p)) (removelast (packs s)) = true.
Proof.
  unfold walks. generalize (packs s). intros pk. induction pk as [|x pk IH]; intros H; [reflexivity|]. cbn [forallb] in H. apply andb_true_iff in H as [A B].
  destruct pk as [|y pk]; [reflexivity|]. cbn [removelast forallb]. rewrite A. apply IH. exact B.
Qed.

Lemma walks_cur s : walks s = true -> memN 0%N (cur s) = false.
Proof.
  unfold walks, cur. generalize (packs s). intros pk. induction pk as [|x pk IH]; intros H; [reflexivity|]. cbn [forallb] in H. apply andb_true_iff in H as [A B].
  destruct pk as [|y pk]; [cbn; apply negb_true_iff; exact A|]. change (last (x :: y :: pk) []) with (last (y :: pk) []). apply IH. exact B.
Qed.

Theorem append_keeps_walkable : forall max s r ok, r <> 0%N -> walks s = true -> walks (append true max s r ok) = true.
Proof.
  intros max s r ok Hr Hw. unfold append. destruct ok; [|exact Hw].
  assert (Hnew : negb (memN 0%N (cur s ++ [r])) = true).
  { apply negb_true_iff. unfold memN. rewrite existsb_app. fold (memN 0%N (cur s)). rewrite (walks_cur s Hw). cbn [existsb orb]. destruct (N.eqb_spec 0 r); [congruence|reflexivity]. }
  destruct (Nat.ltb max _); unfold walks, set_cur; cbn [packs]; rewrite ?forallb_app'; cbn [forallb]; rewrite (walks_removelast s Hw), Hnew; reflexivity.
Qed.

(* the order before the repair (D13): rolling over first and then undoing the failed index write damages the new pack *)
Lemma rollover_then_index_failure_breaks_walk :
  let s := {| packs := [[1; 2]%N]; rows := [2; 1]%N |} in
  walks (append false 2 s 3%N false) = false /\ walks (append true 2 s 3%N false) = true /\ append true 2 s 3%N false = s.
Proof. repeat split; reflexivity. Qed.

(* ---- encrypt ---- *)
Lemma existsb_eqb_In r l : existsb (Nat.eqb r) l = true <-> In r l.
Proof.
  rewrite existsb_exists. split.
  - intros (x & Hx & E). apply Nat.eqb_eq in E. subst. exact Hx.
  - intros H. exists r. split; [exact H|apply Nat.eqb_refl].
Qed.

Lemma enc_receive_inv s r f : incl (e_index s) (e_metas s) ->
  incl (e_index (fst (enc_receive true s r f))) (e_metas (fst (enc_receive true s r f))).
Proof.
  intros H. unfold enc_receive. destruct (existsb (Nat.eqb r) (e_index s)); [exact H|].
  destruct f; cbn; try exact H.
  - intros x [->|Hx]; [left; reflexivity|right; apply H; exact Hx].
  - apply incl_tl. exact H.
Qed.

Lemma enc_receive_ack s r f : snd (enc_receive true s r f) = true -> In r (e_index (fst (enc_receive true s r f))).
Proof.
  unfold enc_receive. destruct (existsb (Nat.eqb r) (e_index s)) eqn:E.
  - intros _. apply existsb_eqb_In. exact E.
  - destruct f; cbn; try discriminate. intros _. left. reflexivity.
Qed.

Lemma enc_receive_mono s r f x : In x (e_index s) -> In x (e_index (fst (enc_receive true s r f))).
Proof.
  unfold enc_receive. destruct (existsb (Nat.eqb r) (e_index s)); [auto|]. destruct f; cbn; auto.
Qed.

(* whatever fails and whenever: every acknowledged upload is served, and is still served by the index rebuilt from the
   meta blobs *)
Theorem enc_acked_survive_rebuild : forall l s, incl (e_index s) (e_metas s) ->
  let '(s', acks) := enc_run true s l in
  incl (e_index s') (e_metas s') /\ (forall x, In x (e_index s) -> In x (e_index s')) /\
  forall r, In r acks -> enc_serves s' r = true /\ enc_serves (enc_rebuild s') r = true.
Proof.
  induction l as [|[r f] rest IH]; intros s Hinv; cbn [enc_run].
  - split; [exact Hinv|]. split; [auto|]. intros r [].
  - destruct (enc_receive true s r f) as [s1 ack] eqn:E1.
    assert (H1 : incl (e_index s1) (e_metas s1)). { pose proof (enc_receive_inv s r f Hinv) as X. rewrite E1 in X. exact X. }
    specialize (IH s1 H1). destruct (enc_run true s1 rest) as [s2 acks].
    destruct IH as (Hi & Hmono & Hacks). split; [exact Hi|]. split.
    + intros x Hx. apply Hmono. pose proof (enc_receive_mono s r f x Hx) as X. rewrite E1 in X. exact X.
    + intros q Hq. assert (Hin : In q (e_index s2)).
      { destruct ack.
        - destruct Hq as [<-|Hq].
          + apply Hmono. pose proof (enc_receive_ack s r f) as X. rewrite E1 in X. apply X. reflexivity.
          + destruct (Hacks q Hq) as [Hs _]. apply existsb_eqb_In. exact Hs.
        - destruct (Hacks q Hq) as [Hs _]. apply existsb_eqb_In. exact Hs. }
      split; apply existsb_eqb_In; [exact Hin|cbn; apply Hi; exact Hin].
Qed.

(* with the index row written first, a failed meta write followed by a retried upload loses the blob at the next rebuild *)
Lemma enc_index_first_loses :
  let '(s', acks) := enc_run false {| e_metas := []; e_index := [] |} [(7, EFailMeta); (7, ENoFail)] in
  acks = [7] /\ enc_serves s' 7 = true /\ enc_serves (enc_rebuild s') 7 = false.
Proof. vm_compute. repeat split. Qed.

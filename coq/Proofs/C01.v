From Coq Require Import List NArith ZArith Bool Lia Sorted Arith.
From PK.Base Require Import Bytes Lex SortedMap.
From PK.Model Require Import Merge C12 C01.
From PK.Proofs Require Import BytesLemmas SortedMapLemmas MergeLemmas Paging.
From PK.Proofs Require C12.
Import ListNotations.

Lemma filter_length_le_local {A} (p : A -> bool) l : (length (filter p l) <= length l)%nat.
Proof. induction l as [|x l IH]; cbn; [lia|]. destruct (p x); cbn; lia. Qed.

(* ================= SPEC: the reference map = the leaf machine on maps ================= *)
Definition spec_state (m : smap) (o : op) : smap :=
  match o with
  | Recv r b _ => match lookup r m with Some _ => m | None => insert r b m end
  | Remove rs => fold_left (fun m r => remove r m) rs m
  | _ => m
  end.
Definition spec_out (m : smap) (o : op) : out :=
  match o with
  | Recv r b _ => ORecv (blen b)
  | Fetch r => match lookup r m with Some b => OBytes b | None => OErr ENotFound end
  | Stat rs => OStat (stat_map m rs)
  | Enum c n => OEnum (firstn n (after c (sized m)))
  | Remove rs => OOk
  end.

Lemma leaf_is_spec m o : leaf true (SLeaf m) o = (SLeaf (spec_state m o), spec_out m o).
Proof. destruct o; reflexivity. Qed.

(* ---- lookups through the derived maps ---- *)
Lemma fold_remove_sorted rs : forall m, ssorted m -> ssorted (fold_left (fun m r => remove r m) rs m).
Proof. induction rs as [|r rs IH]; intros m H; [exact H|]. cbn. apply IH. apply remove_sorted. exact H. Qed.

Lemma lookup_fold_remove rs : forall m k, ssorted m ->
  lookup k (fold_left (fun m r => remove r m) rs m) = if mem k rs then None else lookup k m.
Proof.
  induction rs as [|r rs IH]; intros m k H; [reflexivity|]. cbn [fold_left mem].
  rewrite IH by (apply remove_sorted; exact H). rewrite lookup_remove by exact H.
  destruct (beqb k r) eqn:E; cbn [orb]; [destruct (mem k rs); reflexivity|reflexivity].
Qed.

Lemma spec_state_sorted m o : ssorted m -> ssorted (spec_state m o).
Proof.
  intros H. destruct o as [r b sc|r|rs|c n|rs]; cbn [spec_state]; try exact H.
  - destruct (lookup r m); [exact H|apply insert_sorted; exact H].
  - apply fold_remove_sorted. exact H.
Qed.

(* ---- the laws of the statement, on the reference map ---- *)
Lemma fetch_after_receive m r b sc : lookup r m = None ->
  spec_out (spec_state m (Recv r b sc)) (Fetch r) = OBytes b.
Proof. intros H. cbn. rewrite H. rewrite lookup_insert, beqb_refl. reflexivity. Qed.

Lemma receive_again_noop m r b b' sc sc' : spec_state (spec_state m (Recv r b sc)) (Recv r b' sc') = spec_state m (Recv r b sc).
Proof.
  cbn. destruct (lookup r m) eqn:E; [rewrite E; reflexivity|]. rewrite lookup_insert, beqb_refl. reflexivity.
Qed.

Lemma receive_keeps_others m r b sc k : k <> r -> lookup k (spec_state m (Recv r b sc)) = lookup k m.
Proof.
  intros H. cbn. destruct (lookup r m); [reflexivity|]. rewrite lookup_insert. apply beqb_neq in H. rewrite H. reflexivity.
Qed.

Lemma removed_is_absent m rs r : ssorted m -> In r rs ->
  spec_out (spec_state m (Remove rs)) (Fetch r) = OErr ENotFound /\
  spec_out (spec_state m (Remove rs)) (Stat [r]) = OStat [] /\
  (forall k, ~ In k rs -> lookup k (spec_state m (Remove rs)) = lookup k m).
Proof.
  intros H Hin. cbn [spec_state spec_out]. apply PK.Proofs.C12.mem_In in Hin.
  assert (L : lookup r (fold_left (fun m r => remove r m) rs m) = None) by (rewrite lookup_fold_remove by exact H; rewrite Hin; reflexivity).
  split; [rewrite L; reflexivity|]. split.
  - unfold stat_map. cbn. rewrite L. reflexivity.
  - intros k Hk. rewrite lookup_fold_remove by exact H. destruct (mem k rs) eqn:E; [apply PK.Proofs.C12.mem_In in E; contradiction|reflexivity].
Qed.

Lemma sized_sorted m : ssorted m -> ssorted (sized m).
Proof.
  induction 1 as [|p m Hs IH Hf]; cbn; [constructor|]. constructor; [exact IH|].
  apply Forall_map. eapply Forall_impl; [|exact Hf]. intros a Ha. exact Ha.
Qed.

Lemma lookup_sized k m : lookup k (sized m) = option_map (fun b => [blen b]) (lookup k m).
Proof. induction m as [|[k' v] m IH]; [reflexivity|]. cbn. destruct (beqb k k'); [reflexivity|exact IH]. Qed.

(* enumeration: exactly the present blobs after the cursor, ascending, at most [limit], with their true sizes *)
Lemma enumerate_exact m c n : ssorted m ->
  exists l, spec_out m (Enum c n) = OEnum l /\ l = firstn n (after c (sized m)) /\
  ssorted l /\ (length l <= n)%nat /\
  (forall k sz, In (k, sz) l -> ltb c k = true /\ exists b, lookup k m = Some b /\ sz = [blen b]).
Proof.
  intros H. eexists. split; [reflexivity|]. split; [reflexivity|].
  pose proof (enumerate_props (sized m) c n (sized_sorted m H)) as (A & B & C). unfold enumerate in *.
  split; [exact A|]. split; [exact B|]. intros k sz Hin. destruct (C _ Hin) as [C1 C2]. split; [exact C1|].
  unfold sized in C2. apply in_map_iff in C2 as ([k' v] & E & Hv). cbn in E. injection E as <- <-.
  exists v. split; [|reflexivity].
  clear - H Hv. induction H as [|[k0 v0] m Hs IH Hf]; [contradiction|]. cbn. destruct Hv as [E|Hv].
  - injection E as -> ->. rewrite beqb_refl. reflexivity.
  - assert (beqb k' k0 = false) as ->; [|apply IH; exact Hv].
    rewrite Forall_forall in Hf. specialize (Hf _ Hv). unfold klt in Hf. cbn in Hf. apply ltb_neq'. exact Hf.
Qed.

(* paging with any page size visits every blob after the first cursor exactly once *)
Lemma paging_visits_all m c limit fuel : ssorted m -> (1 <= limit)%nat -> (length m < fuel)%nat ->
  concat (pages fuel (sized m) c limit) = after c (sized m).
Proof.
  intros H L F. apply paging_exact; [apply sized_sorted; exact H|exact L|].
  eapply Nat.le_lt_trans; [|exact F]. unfold after. etransitivity; [apply filter_length_le_local|]. unfold sized. rewrite map_length. lia.
Qed.

(* ================= compositions refine the reference map ================= *)
Fixpoint first_some (l : list (option (list N))) : option (list N) :=
  match l with [] => None | Some b :: _ => Some b | None :: r => first_some r end.

Lemma lookup_union_first k ms : Forall ssorted ms -> lookup k (union ms) = first_some (map (lookup k) ms).
Proof.
  induction 1 as [|m ms H Hs IH]; [reflexivity|]. cbn [union fold_right map first_some]. fold (union ms).
  rewrite lookup_merge by (try apply union_sorted; assumption). rewrite IH. destruct (lookup k m); reflexivity.
Qed.

Lemma lookup_concat k ls : lookup k (concat ls) = first_some (map (lookup k) ls).
Proof.
  induction ls as [|l ls IH]; [reflexivity|]. cbn [concat map first_some]. rewrite <- IH. clear IH.
  induction l as [|[k' v] l IHl]; [cbn; destruct (lookup k (concat ls)); reflexivity|].
  cbn [app lookup]. destruct (beqb k k'); [reflexivity|exact IHl].
Qed.

Lemma canon_sorted l : ssorted (canon l).
Proof. induction l as [|p l IH]; cbn; [constructor|apply insert_sorted; exact IH]. Qed.

Lemma lookup_canon k l : lookup k (canon l) = lookup k l.
Proof.
  induction l as [|[k' v] l IH]; [reflexivity|]. cbn [canon fold_right fst snd]. fold (canon l).
  rewrite lookup_insert. cbn [lookup]. destruct (beqb k k'); [reflexivity|exact IH].
Qed.

Lemma lookup_stat_map k m rs :
  lookup k (stat_map m rs) = if mem k rs then option_map (fun b => [blen b]) (lookup k m) else None.
Proof.
  unfold stat_map. rewrite lookup_canon. induction rs as [|r rs IH]; [reflexivity|].
  cbn [flat_map mem]. destruct (beqb k r) eqn:E.
  - apply beqb_eq in E. subst r. cbn [orb]. destruct (lookup k m) as [b|] eqn:L; cbn [app lookup option_map].
    + rewrite beqb_refl. reflexivity.
    + rewrite IH. destruct (mem k rs); reflexivity.
  - cbn [orb]. destruct (lookup r m); cbn [app lookup]; [rewrite E|]; exact IH.
Qed.

Lemma stat_map_sorted m rs : ssorted (stat_map m rs).
Proof. apply canon_sorted. Qed.

Lemma sized_cons k v m : sized ((k, v) :: m) = (k, [blen v]) :: sized m.
Proof. reflexivity. Qed.

Lemma merge_sized a : forall b, merge (sized a) (sized b) = sized (merge a b).
Proof.
  induction a as [|[k1 v1] r1 IH1]; intros b; [change (sized []) with (@nil (list N * list N)); rewrite !merge_nil_l; reflexivity|].
  induction b as [|[k2 v2] r2 IH2]; [change (sized []) with (@nil (list N * list N)); rewrite !merge_nil_r; reflexivity|].
  rewrite !sized_cons, !merge_cons.
  destruct (ltb k1 k2).
  - rewrite sized_cons. f_equal. rewrite <- sized_cons. apply IH1.
  - destruct (ltb k2 k1).
    + rewrite sized_cons. f_equal. rewrite <- sized_cons. exact IH2.
    + rewrite sized_cons. f_equal. apply IH1.
Qed.

Lemma union_sized ms : union (map sized ms) = sized (union ms).
Proof. induction ms as [|m ms IH]; [reflexivity|]. cbn [map union fold_right]. fold (union (map sized ms)). fold (union ms). rewrite IH. apply merge_sized. Qed.

Section Content.
  (* content addressing: the bytes stored under a ref are a function of the ref *)
  Variable content : list N -> list N.

  Definition wfm (m : smap) : Prop := ssorted m /\ Forall (fun p => snd p = content (fst p)) m.
  Definition op_ok (o : op) : Prop := match o with Recv r b _ => b = content r | _ => True end.

  Lemma wfm_lookup m k v : wfm m -> lookup k m = Some v -> v = content k.
  Proof.
    intros [_ H]. induction H as [|[k' v'] m Hp _ IH]; cbn; [discriminate|].
    destruct (beqb k k') eqn:E; [|exact IH]. intros [= <-]. apply beqb_eq in E. subst. exact Hp.
  Qed.

  Lemma wfm_spec_state m o : wfm m -> op_ok o -> wfm (spec_state m o).
  Proof.
    intros [Hs Hc] Hok. split; [apply spec_state_sorted; exact Hs|].
    destruct o as [r b sc|r|rs|c n|rs]; cbn [spec_state]; try exact Hc.
    - destruct (lookup r m); [exact Hc|]. apply insert_forall; [cbn in *; exact Hok|exact Hc].
    - clear Hs Hok. revert m Hc. induction rs as [|r rs IH]; intros m Hc; [exact Hc|]. cbn. apply IH. apply remove_forall. exact Hc.
  Qed.

  Lemma wfm_union ms : Forall wfm ms -> wfm (union ms).
  Proof.
    intros H. split.
    - apply union_sorted. eapply Forall_impl; [|exact H]. intros m [A _]. exact A.
    - induction H as [|m ms [_ Hc] _ IH]; [constructor|]. cbn [union fold_right]. apply merge_forall; assumption.
  Qed.

  Record refines (M : machine) (A : st -> smap) (I : st -> Prop) : Prop := {
    r_wf : forall s, I s -> wfm (A s);
    r_step : forall s o, I s -> op_ok o ->
      I (fst (M s o)) /\ A (fst (M s o)) = spec_state (A s) o /\ snd (M s o) = spec_out (A s) o }.

  Definition leaf_abs (s : st) : smap := match s with SLeaf m => m | _ => [] end.
  Definition leaf_inv (s : st) : Prop := match s with SLeaf m => wfm m | _ => False end.

  Lemma leaf_refines : refines (leaf true) leaf_abs leaf_inv.
  Proof.
    split.
    - intros [m|] H; [exact H|contradiction].
    - intros [m|ks aux] o H Hok; [|contradiction]. rewrite leaf_is_spec. cbn [fst snd leaf_abs leaf_inv].
      split; [apply wfm_spec_state; assumption|]. split; reflexivity.
  Qed.

  (* ---- map-level facts used by the n-ary combinators ---- *)
  Lemma union_recv ms r b sc : Forall wfm ms -> ms <> [] -> b = content r ->
    union (map (fun m => spec_state m (Recv r b sc)) ms) = spec_state (union ms) (Recv r b sc).
  Proof.
    intros Hw Hne Hb.
    assert (Hs : Forall ssorted ms) by (eapply Forall_impl; [|exact Hw]; intros m [A _]; exact A).
    apply sorted_ext.
    - apply union_sorted. apply Forall_map. eapply Forall_impl; [|exact Hs]. intros m A. apply spec_state_sorted. exact A.
    - apply spec_state_sorted, union_sorted. exact Hs.
    - intros k. rewrite lookup_union_first.
      2:{ apply Forall_map. eapply Forall_impl; [|exact Hs]. intros m A. apply spec_state_sorted. exact A. }
      rewrite map_map.
      assert (Hk : forall m, wfm m -> lookup k (spec_state m (Recv r b sc)) = if beqb k r then Some b else lookup k m).
      { intros m Hm. cbn [spec_state]. destruct (lookup r m) as [v|] eqn:L.
        - destruct (beqb k r) eqn:E; [|reflexivity]. apply beqb_eq in E. subst k. rewrite L.
          rewrite (wfm_lookup _ _ _ Hm L). congruence.
        - rewrite lookup_insert. reflexivity. }
      rewrite (Hk (union ms) (wfm_union ms Hw)). rewrite lookup_union_first by exact Hs.
      destruct (beqb k r) eqn:E.
      + destruct ms as [|m ms]; [contradiction|]. inversion Hw; subst. cbn [map first_some]. rewrite Hk by assumption. reflexivity.
      + clear Hne. induction Hw as [|m ms Hm _ IH]; [reflexivity|]. cbn [map first_some]. rewrite Hk by exact Hm.
        inversion Hs; subst. rewrite IH by assumption. reflexivity.
  Qed.

  Lemma union_remove ms rs : Forall ssorted ms ->
    union (map (fun m => spec_state m (Remove rs)) ms) = spec_state (union ms) (Remove rs).
  Proof.
    intros Hs. apply sorted_ext.
    - apply union_sorted. apply Forall_map. eapply Forall_impl; [|exact Hs]. intros m A. apply spec_state_sorted. exact A.
    - apply spec_state_sorted, union_sorted. exact Hs.
    - intros k. rewrite lookup_union_first.
      2:{ apply Forall_map. eapply Forall_impl; [|exact Hs]. intros m A. apply spec_state_sorted. exact A. }
      cbn [spec_state]. rewrite lookup_fold_remove by (apply union_sorted; exact Hs). rewrite lookup_union_first by exact Hs.
      rewrite map_map. induction Hs as [|m ms Hm _ IH]; [destruct (mem k rs); reflexivity|].
      cbn [map first_some]. rewrite lookup_fold_remove by exact Hm. destruct (mem k rs) eqn:E; [exact IH|].
      destruct (lookup k m); [reflexivity|exact IH].
  Qed.

  Lemma union_stat ms rs : Forall ssorted ms ->
    canon (concat (map (fun m => stat_map m rs) ms)) = stat_map (union ms) rs.
  Proof.
    intros Hs. apply sorted_ext; [apply canon_sorted|apply stat_map_sorted|].
    intros k. rewrite lookup_canon, lookup_concat, lookup_stat_map, lookup_union_first by exact Hs. rewrite map_map.
    induction Hs as [|m ms Hm _ IH]; [destruct (mem k rs); reflexivity|].
    cbn [map first_some]. rewrite lookup_stat_map. destruct (mem k rs) eqn:E; [|exact IH].
    destruct (lookup k m); cbn [option_map]; [reflexivity|]. rewrite IH. reflexivity.
  Qed.

  Lemma union_enum ms c n : Forall ssorted ms ->
    menum n (map (fun m => firstn n (after c (sized m))) ms) None = firstn n (after c (sized (union ms))).
  Proof.
    intros Hs. rewrite <- union_sized. rewrite <- merged_enumerate_exact.
    2:{ apply Forall_map. eapply Forall_impl; [|exact Hs]. intros m A. apply sized_sorted. exact A. }
    unfold merged_enumerate. rewrite map_map. reflexivity.
  Qed.

  (* ---- lifting the kids' refinements through "call every kid" and "ordered fallback" ---- *)
  Definition triple := (machine * (st -> smap) * (st -> Prop))%type.
  Definition tM (t : triple) : machine := fst (fst t).
  Definition tA (t : triple) : st -> smap := snd (fst t).
  Definition tI (t : triple) : st -> Prop := snd t.
  Definition absl (T : list triple) (ks : list st) : list smap := map2 (fun t k => tA t k) T ks.
  Definition invl (T : list triple) (ks : list st) : Prop := Forall2 (fun t k => tI t k) T ks.
  Definition okl (T : list triple) : Prop := Forall (fun t => refines (tM t) (tA t) (tI t)) T.

  Lemma absl_wf T ks : okl T -> invl T ks -> Forall wfm (absl T ks).
  Proof.
    intros Hok Hi. induction Hi as [|t k T ks Ht _ IH]; [constructor|]. inversion Hok; subst.
    cbn [absl map2]. constructor; [eapply r_wf; eassumption|apply IH; assumption].
  Qed.

  Lemma wfm_sorted_all ms : Forall wfm ms -> Forall ssorted ms.
  Proof. intros H. eapply Forall_impl; [|exact H]. intros m [A _]. exact A. Qed.

  Lemma kid_steps_spec T ks o : okl T -> invl T ks -> op_ok o ->
    let res := kid_steps (map tM T) ks o in
    invl T (map fst res) /\
    absl T (map fst res) = map (fun m => spec_state m o) (absl T ks) /\
    map snd res = map (fun m => spec_out m o) (absl T ks).
  Proof.
    intros Hok Hi Ho. induction Hi as [|t k T ks Ht _ IH]; [cbn; repeat split; constructor|].
    inversion Hok as [|? ? Hr Hok']; subst. destruct (IH Hok') as (A & B & C).
    destruct (r_step _ _ _ Hr k o Ht Ho) as (A1 & B1 & C1).
    cbn [kid_steps map map2 absl]. fold (kid_steps (map tM T) ks o). fold (absl T ks).
    split; [constructor; assumption|]. split.
    - cbn [map2]. fold (absl T (map fst (kid_steps (map tM T) ks o))). rewrite B. f_equal. exact B1.
    - f_equal; assumption.
  Qed.

  Lemma fetch_fold_spec T ks r : okl T -> invl T ks ->
    invl T (fst (fetch_fold (map tM T) ks r)) /\
    absl T (fst (fetch_fold (map tM T) ks r)) = absl T ks /\
    snd (fetch_fold (map tM T) ks r) =
      match first_some (map (lookup r) (absl T ks)) with Some b => OBytes b | None => OErr ENotFound end.
  Proof.
    intros Hok Hi. induction Hi as [|t k T ks Ht Hi' IH]; [cbn; repeat split; constructor|].
    inversion Hok as [|? ? Hr Hok']; subst. specialize (IH Hok'). destruct IH as (A & B & C).
    destruct (r_step _ _ _ Hr k (Fetch r) Ht I) as (A1 & B1 & C1). cbn [spec_state spec_out] in B1, C1.
    cbn [map fetch_fold]. destruct (tM t k (Fetch r)) as [k1 x] eqn:E. cbn [fst snd] in *. subst x.
    cbn [absl map2 map first_some]. fold (absl T ks).
    destruct (lookup r (tA t k)) as [b|] eqn:L.
    - cbn [fst snd]. split; [constructor; assumption|]. split; [cbn [absl map2]; rewrite B1; reflexivity|reflexivity].
    - destruct (fetch_fold (map tM T) ks r) as [rest o'] eqn:E2. cbn [fst snd] in *.
      split; [constructor; assumption|]. split; [cbn [absl map2]; fold (absl T rest); rewrite B1, B; reflexivity|].
      destruct T as [|t' T'].
      + inversion Hi'; subst. cbn. reflexivity.
      + cbn [map]. exact C.
  Qed.

  Lemma has_err_stat ms rs : has_err (map (fun m => spec_out m (Stat rs)) ms) = false.
  Proof. induction ms as [|m ms IH]; [reflexivity|]. cbn. exact IH. Qed.
  Lemma has_err_enum ms c n : has_err (map (fun m => spec_out m (Enum c n)) ms) = false.
  Proof. induction ms as [|m ms IH]; [reflexivity|]. cbn. exact IH. Qed.

  Definition node_abs (T : list triple) (s : st) : smap := match s with SNode ks _ => union (absl T ks) | _ => [] end.
  Definition node_inv (T : list triple) (s : st) : Prop := match s with SNode ks _ => invl T ks | _ => False end.

  Lemma absl_nonempty T ks : invl T ks -> T <> [] -> absl T ks <> [].
  Proof. intros H Hne. destruct H; [contradiction|discriminate]. Qed.

  Theorem replica_refines T : okl T -> T <> [] -> refines (replica (map tM T)) (node_abs T) (node_inv T).
  Proof.
    intros Hok Hne. split.
    - intros [m|ks aux] Hi; [contradiction|]. apply wfm_union. apply absl_wf; assumption.
    - intros [m|ks aux] o Hi Ho; [contradiction|]. cbn [node_inv node_abs] in *.
      pose proof (absl_wf T ks Hok Hi) as Hw. pose proof (wfm_sorted_all _ Hw) as Hs.
      destruct o as [r b sc|r|rs|c n|rs]; cbn [replica].
      + destruct (kid_steps_spec T ks _ Hok Hi Ho) as (A & B & C). cbv zeta in A, B, C. cbn [fst snd node_inv node_abs].
        split; [exact A|]. split; [rewrite B; apply union_recv; [exact Hw|apply absl_nonempty; assumption|exact Ho]|].
        rewrite C.
        assert (forallb is_recv_ok (map (fun m => spec_out m (Recv r b sc)) (absl T ks)) = true) as ->; [|reflexivity].
        clear. induction (absl T ks) as [|m ms IH]; [reflexivity|]. cbn. exact IH.
      + destruct (fetch_fold_spec T ks r Hok Hi) as (A & B & C).
        destruct (fetch_fold (map tM T) ks r) as [ks' x]. cbn [fst snd node_inv node_abs] in *.
        split; [exact A|]. split; [rewrite B; reflexivity|]. rewrite C. cbn [spec_out]. rewrite lookup_union_first by exact Hs. reflexivity.
      + destruct (kid_steps_spec T ks _ Hok Hi Ho) as (A & B & C). cbv zeta in A, B, C. cbn [fst snd node_inv node_abs].
        split; [exact A|]. split; [rewrite B; cbn [spec_state]; rewrite map_id; reflexivity|].
        rewrite C, has_err_stat. rewrite <- (map_map snd stat_list), C, map_map. cbn [spec_out stat_list].
        f_equal. apply union_stat. exact Hs.
      + destruct (kid_steps_spec T ks _ Hok Hi Ho) as (A & B & C). cbv zeta in A, B, C. cbn [fst snd node_inv node_abs].
        split; [exact A|]. split; [rewrite B; cbn [spec_state]; rewrite map_id; reflexivity|].
        rewrite C, has_err_enum. rewrite <- (map_map snd enum_list), C, map_map. cbn [spec_out enum_list].
        f_equal. apply union_enum. exact Hs.
      + destruct (kid_steps_spec T ks _ Hok Hi Ho) as (A & B & C). cbv zeta in A, B, C. cbn [fst snd node_inv node_abs].
        split; [exact A|]. split; [rewrite B; apply union_remove; exact Hs|].
        rewrite C. cbn [spec_out].
        pose proof (absl_nonempty T ks Hi Hne) as Hn. destruct (absl T ks); [contradiction|reflexivity].
  Qed.
End Content.

(* ================= every nesting of the proved combinators ================= *)
Section Nest.
  Variable content : list N -> list N.

  (* machine, abstraction function and invariant of a configuration *)
  Fixpoint trip (c : cfg) : triple :=
    match c with
    | Leaf cr => (leaf cr, leaf_abs, leaf_inv content)
    | Replica subs => let T := map trip subs in (replica (map tM T), node_abs T, node_inv T)
    | _ => (sem c, (fun _ => []), (fun _ => False))
    end.

  (* the shapes covered by the theorem: any nesting of replicas (all replicas written and read) over leaves that
     support removal *)
  Fixpoint shape_ok (c : cfg) : bool :=
    match c with
    | Leaf cr => cr
    | Replica subs => negb (match subs with [] => true | _ => false end) && forallb shape_ok subs
    | _ => false
    end.

  Lemma cfg_ind' (P : cfg -> Prop) :
    (forall cr, P (Leaf cr)) ->
    (forall subs, Forall P subs -> P (Replica subs)) ->
    (forall subs, P (Shard subs)) -> (forall subs, P (Union subs)) ->
    (forall d l u, P (Overlay d l u)) -> (forall m, P (Namespace m)) ->
    (forall c o, P (ProxyCache c o)) -> (forall a b, P (Cond a b)) ->
    forall c, P c.
  Proof.
    intros HL HR HS HU HO HN HP HC. fix IH 1. intros [cr|subs|subs|subs|d l u|m|c o|a b].
    - apply HL.
    - apply HR. induction subs as [|x xs IHxs]; constructor; [apply IH|exact IHxs].
    - apply HS.
    - apply HU.
    - apply HO.
    - apply HN.
    - apply HP.
    - apply HC.
  Qed.

  Theorem nest_refines : forall c, shape_ok c = true ->
    tM (trip c) = sem c /\ refines content (sem c) (tA (trip c)) (tI (trip c)).
  Proof.
    induction c as [cr|subs IH| | | | | | ] using cfg_ind'; cbn [shape_ok]; intros Hs; try discriminate.
    - subst cr. split; [reflexivity|]. cbn [trip tA tI sem fst snd]. apply leaf_refines.
    - apply andb_true_iff in Hs as [Hne Hall]. rewrite forallb_forall in Hall.
      assert (HM : map tM (map trip subs) = map sem subs).
      { rewrite map_map. apply map_ext_in. intros x Hx. rewrite Forall_forall in IH. apply (IH x Hx). apply Hall. exact Hx. }
      split; [cbn [trip tM fst]; rewrite HM; reflexivity|].
      cbn [trip tA tI fst snd sem]. rewrite <- HM. apply replica_refines.
      + apply Forall_map. apply Forall_forall. intros x Hx. rewrite Forall_forall in IH.
        destruct (IH x Hx (Hall x Hx)) as [E R]. rewrite E. exact R.
      + destruct subs; [discriminate|discriminate].
  Qed.

  Lemma init_inv : forall c, shape_ok c = true -> tI (trip c) (init c).
  Proof.
    induction c as [cr|subs IH| | | | | | ] using cfg_ind'; cbn [shape_ok]; intros Hs; try discriminate.
    - cbn. split; constructor.
    - apply andb_true_iff in Hs as [_ Hall]. rewrite forallb_forall in Hall. cbn [trip tI snd init node_inv].
      unfold invl. clear -IH Hall. induction subs as [|x xs IHx]; [constructor|]. cbn [map]. inversion IH; subst.
      constructor; [apply H1; apply Hall; left; reflexivity|apply IHx; [assumption|intros y Hy; apply Hall; right; exact Hy]].
  Qed.

  Lemma init_abs : forall c, shape_ok c = true -> tA (trip c) (init c) = [].
  Proof.
    induction c as [cr|subs IH| | | | | | ] using cfg_ind'; cbn [shape_ok]; intros Hs; try discriminate.
    - reflexivity.
    - apply andb_true_iff in Hs as [_ Hall]. rewrite forallb_forall in Hall. cbn [trip tA fst snd init node_abs].
      clear -IH Hall. induction subs as [|x xs IHx]; [reflexivity|]. cbn [map absl map2 union fold_right]. inversion IH; subst.
      rewrite H1 by (apply Hall; left; reflexivity). rewrite merge_nil_l. apply IHx; [assumption|intros y Hy; apply Hall; right; exact Hy].
  Qed.

  Fixpoint run_spec (m : smap) (ops : list op) : list out :=
    match ops with [] => [] | o :: r => spec_out m o :: run_spec (spec_state m o) r end.

  Theorem run_refines M A I : refines content M A I -> forall ops s, I s -> Forall (op_ok content) ops ->
    run M s ops = run_spec (A s) ops.
  Proof.
    intros R. induction ops as [|o ops IH]; intros s Hi Hok; [reflexivity|]. inversion Hok; subst.
    destruct (r_step _ _ _ _ R s o Hi) as (A1 & B1 & C1); [assumption|].
    cbn [run run_spec]. destruct (M s o) as [s' x]. cbn [fst snd] in *. subst x. f_equal. rewrite <- B1. apply IH; assumption.
  Qed.

  Theorem nest_behaves_as_map c ops : shape_ok c = true -> Forall (op_ok content) ops ->
    run (sem c) (init c) ops = run_spec [] ops.
  Proof.
    intros Hs Hok. destruct (nest_refines c Hs) as [_ R].
    rewrite (run_refines _ _ _ R ops (init c) (init_inv c Hs) Hok). rewrite init_abs by exact Hs. reflexivity.
  Qed.
End Nest.

(* the union store is read-only: writes are refused without any effect, reads see the sorted union *)
Lemma union_rejects_writes ms s : forall o, (match o with Recv _ _ _ | Remove _ => True | _ => False end) ->
  match s with SNode _ _ => union_m ms s o = (s, OErr EReadonly) | _ => True end.
Proof. intros o H. destruct s; [exact I|]. destruct o; try contradiction; reflexivity. Qed.

Lemma subfetch_spec b off len : subfetch b off len =
  if (off <? 0)%Z || (len <? 0)%Z || (Z.of_nat (length b) <? off)%Z then None
  else Some (firstn (Z.to_nat len) (skipn (Z.to_nat off) b)).
Proof. reflexivity. Qed.

Lemma subfetch_whole b : subfetch b 0 (Z.of_nat (length b)) = Some b.
Proof.
  unfold subfetch. assert ((0 <? 0)%Z || (Z.of_nat (length b) <? 0)%Z || (Z.of_nat (length b) <? 0)%Z = false) as -> by lia.
  cbn [Z.to_nat skipn]. rewrite Nat2Z.id, firstn_all. reflexivity.
Qed.

From Coq Require Import List NArith ZArith Bool Lia Sorted Arith.
From PK.Base Require Import Bytes Lex SortedMap.
From PK.Model Require Import Merge C12 C01.
From PK.Proofs Require Import BytesLemmas SortedMapLemmas MergeLemmas Paging.
From PK.Proofs Require C12.
Import ListNotations.

Lemma filter_length_le_local {A} (p : A -> bool) l : (length (filter p l) <= length l)%nat.
Proof. induction l as [|x l IH]; cbn; [lia|]. destruct (p x); cbn; lia. Qed.

(* ================= SPEC: the reference map = the leaf machine on maps ================= *)
Definition spec_state (m : smap) (o : op) : smap :=
  match o with
  | Recv r b _ => match lookup r m with Some _ => m | None => insert r b m end
  | Remove rs => fold_left (fun m r => remove r m) rs m
  | _ => m
  end.
Definition spec_out (m : smap) (o : op) : out :=
  match o with
  | Recv r b _ => ORecv (blen b)
  | Fetch r => match lookup r m with Some b => OBytes b | None => OErr ENotFound end
  | Stat rs => OStat (stat_map m rs)
  | Enum c n => OEnum (firstn n (after c (sized m)))
  | Remove rs => OOk
  end.

Lemma leaf_is_spec m o : leaf true (SLeaf m) o = (SLeaf (spec_state m o), spec_out m o).
Proof. destruct o; reflexivity. Qed.

(* ---- lookups through the derived maps ---- *)
Lemma fold_remove_sorted rs : forall m, ssorted m -> ssorted (fold_left (fun m r => remove r m) rs m).
Proof. induction rs as [|r rs IH]; intros m H; [exact H|]. cbn. apply IH. apply remove_sorted. exact H. Qed.

Lemma lookup_fold_remove rs : forall m k, ssorted m ->
  lookup k (fold_left (fun m r => remove r m) rs m) = if mem k rs then None else lookup k m.
Proof.
  induction rs as [|r rs IH]; intros m k H; [reflexivity|]. cbn [fold_left mem].
  rewrite IH by (apply remove_sorted; exact H). rewrite lookup_remove by exact H.
  destruct (beqb k r) eqn:E; cbn [orb]; [destruct (mem k rs); reflexivity|reflexivity].
Qed.

Lemma spec_state_sorted m o : ssorted m -> ssorted (spec_state m o).
Proof.
  intros H. destruct o as [r b sc|r|rs|c n|rs]; cbn [spec_state]; try exact H.
  - destruct (lookup r m); [exact H|apply insert_sorted; exact H].
  - apply fold_remove_sorted. exact H.
Qed.

(* ---- the laws of the statement, on the reference map ---- *)
Lemma fetch_after_receive m r b sc : lookup r m = None ->
  spec_out (spec_state m (Recv r b sc)) (Fetch r) = OBytes b.
Proof. intros H. cbn. rewrite H. rewrite lookup_insert, beqb_refl. reflexivity. Qed.

Lemma receive_again_noop m r b b' sc sc' : spec_state (spec_state m (Recv r b sc)) (Recv r b' sc') = spec_state m (Recv r b sc).
Proof.
  cbn. destruct (lookup r m) eqn:E; [rewrite E; reflexivity|]. rewrite lookup_insert, beqb_refl. reflexivity.
Qed.

Lemma receive_keeps_others m r b sc k : k <> r -> lookup k (spec_state m (Recv r b sc)) = lookup k m.
Proof.
  intros H. cbn. destruct (lookup r m); [reflexivity|]. rewrite lookup_insert. apply beqb_neq in H. rewrite H. reflexivity.
Qed.

Lemma removed_is_absent m rs r : ssorted m -> In r rs ->
  spec_out (spec_state m (Remove rs)) (Fetch r) = OErr ENotFound /\
  spec_out (spec_state m (Remove rs)) (Stat [r]) = OStat [] /\
  (forall k, ~ In k rs -> lookup k (spec_state m (Remove rs)) = lookup k m).
Proof.
  intros H Hin. cbn [spec_state spec_out]. apply PK.Proofs.C12.mem_In in Hin.
  assert (L : lookup r (fold_left (fun m r => remove r m) rs m) = None) by (rewrite lookup_fold_remove by exact H; rewrite Hin; reflexivity).
  split; [rewrite L; reflexivity|]. split.
  - unfold stat_map. cbn. rewrite L. reflexivity.
  - intros k Hk. rewrite lookup_fold_remove by exact H. destruct (mem k rs) eqn:E; [apply PK.Proofs.C12.mem_In in E; contradiction|reflexivity].
Qed.

Lemma sized_sorted m : ssorted m -> ssorted (sized m).
Proof.
  induction 1 as [|p m Hs IH Hf]; cbn; [constructor|]. constructor; [exact IH|].
  apply Forall_map. eapply Forall_impl; [|exact Hf]. intros a Ha. exact Ha.
Qed.

Lemma lookup_sized k m : lookup k (sized m) = option_map (fun b => [blen b]) (lookup k m).
Proof. induction m as [|[k' v] m IH]; [reflexivity|]. cbn. destruct (beqb k k'); [reflexivity|exact IH]. Qed.

(* enumeration: exactly the present blobs after the cursor, ascending, at most [limit], with their true sizes *)
Lemma enumerate_exact m c n : ssorted m ->
  exists l, spec_out m (Enum c n) = OEnum l /\ l = firstn n (after c (sized m)) /\
  ssorted l /\ (length l <= n)%nat /\
  (forall k sz, In (k, sz) l -> ltb c k = true /\ exists b, lookup k m = Some b /\ sz = [blen b]).
Proof.
  intros H. eexists. split; [reflexivity|]. split; [reflexivity|].
  pose proof (enumerate_props (sized m) c n (sized_sorted m H)) as (A & B & C). unfold enumerate in *.
  split; [exact A|]. split; [exact B|]. intros k sz Hin. destruct (C _ Hin) as [C1 C2]. split; [exact C1|].
  unfold sized in C2. apply in_map_iff in C2 as ([k' v] & E & Hv). cbn in E. injection E as <- <-.
  exists v. split; [|reflexivity].
  clear - H Hv. induction H as [|[k0 v0] m Hs IH Hf]; [contradiction|]. cbn. destruct Hv as [E|Hv].
  - injection E as -> ->. rewrite beqb_refl. reflexivity.
  - assert (beqb k' k0 = false) as ->; [|apply IH; exact Hv].
    rewrite Forall_forall in Hf. specialize (Hf _ Hv). unfold klt in Hf. cbn in Hf. apply ltb_neq'. exact Hf.
Qed.

(* paging with any page size visits every blob after the first cursor exactly once *)
Lemma paging_visits_all m c limit fuel : ssorted m -> (1 <= limit)%nat -> (length m < fuel)%nat ->
  concat (pages fuel (sized m) c limit) = after c (sized m).
Proof.
  intros H L F. apply paging_exact; [apply sized_sorted; exact H|exact L|].
  eapply Nat.le_lt_trans; [|exact F]. unfold after. etransitivity; [apply filter_length_le_local|]. unfold sized. rewrite map_length. lia.
Qed.

(* ================= compositions refine the reference map ================= *)
Fixpoint first_some (l : list (option (list N))) : option (list N) :=
  match l with [] => None | Some b :: _ => Some b | None :: r => first_some r end.

Lemma lookup_union_first k ms : Forall ssorted ms -> lookup k (union ms) = first_some (map (lookup k) ms).
Proof.
  induction 1 as [|m ms H Hs IH]; [reflexivity|]. cbn [union fold_right map first_some]. fold (union ms).
  rewrite lookup_merge by (try apply union_sorted; assumption). rewrite IH. destruct (lookup k m); reflexivity.
Qed.

Lemma lookup_concat k ls : lookup k (concat ls) = first_some (map (lookup k) ls).
Proof.
  induction ls as [|l ls IH]; [reflexivity|]. cbn [concat map first_some]. rewrite <- IH. clear IH.
  induction l as [|[k' v] l IHl]; [cbn; destruct (lookup k (concat ls)); reflexivity|].
  cbn [app lookup]. destruct (beqb k k'); [reflexivity|exact IHl].
Qed.

Lemma canon_sorted l : ssorted (canon l).
Proof. induction l as [|p l IH]; cbn; [constructor|apply insert_sorted; exact IH]. Qed.

Lemma lookup_canon k l : lookup k (canon l) = lookup k l.
Proof.
  induction l as [|[k' v] l IH]; [reflexivity|]. cbn [canon fold_right fst snd]. fold (canon l).
  rewrite lookup_insert. cbn [lookup]. destruct (beqb k k'); [reflexivity|exact IH].
Qed.

Lemma lookup_stat_map k m rs :
  lookup k (stat_map m rs) = if mem k rs then option_map (fun b => [blen b]) (lookup k m) else None.
Proof.
  unfold stat_map. rewrite lookup_canon. induction rs as [|r rs IH]; [reflexivity|].
  cbn [flat_map mem]. destruct (beqb k r) eqn:E.
  - apply beqb_eq in E. subst r. cbn [orb]. destruct (lookup k m) as [b|] eqn:L; cbn [app lookup option_map].
    + rewrite beqb_refl. reflexivity.
    + rewrite IH. destruct (mem k rs); reflexivity.
  - cbn [orb]. destruct (lookup r m); cbn [app lookup]; [rewrite E|]; exact IH.
Qed.

Lemma stat_map_sorted m rs : ssorted (stat_map m rs).
Proof. apply canon_sorted. Qed.

Lemma sized_cons k v m : sized ((k, v) :: m) = (k, [blen v]) :: sized m.
Proof. reflexivity. Qed.

Lemma merge_sized a : forall b, merge (sized a) (sized b) = sized (merge a b).
Proof.
  induction a as [|[k1 v1] r1 IH1]; intros b; [change (sized []) with (@nil (list N * list N)); rewrite !merge_nil_l; reflexivity|].
  induction b as [|[k2 v2] r2 IH2]; [change (sized []) with (@nil (list N * list N)); rewrite !merge_nil_r; reflexivity|].
  rewrite !sized_cons, !merge_cons.
  destruct (ltb k1 k2).
  - rewrite sized_cons. f_equal. rewrite <- sized_cons. apply IH1.
  - destruct (ltb k2 k1).
    + rewrite sized_cons. f_equal. rewrite <- sized_cons. exact IH2.
    + rewrite sized_cons. f_equal. apply IH1.
Qed.

Lemma union_sized ms : union (map sized ms) = sized (union ms).
Proof. induction ms as [|m ms IH]; [reflexivity|]. cbn [map union fold_right]. fold (union (map sized ms)). fold (union ms). rewrite IH. apply merge_sized. Qed.

Section Content.
  (* content addressing: the bytes stored under a ref are a function of the ref *)
  Variable content : list N -> list N.

  Definition wfm (m : smap) : Prop := ssorted m /\ Forall (fun p => snd p = content (fst p)) m.
  Definition op_ok (o : op) : Prop := match o with Recv r b _ => b = content r | _ => True end.

  Lemma wfm_lookup m k v : wfm m -> lookup k m = Some v -> v = content k.
  Proof.
    intros [_ H]. induction H as [|[k' v'] m Hp _ IH]; cbn; [discriminate|].
    destruct (beqb k k') eqn:E; [|exact IH]. intros [= <-]. apply beqb_eq in E. subst. exact Hp.
  Qed.

  Lemma wfm_spec_state m o : wfm m -> op_ok o -> wfm (spec_state m o).
  Proof.
    intros [Hs Hc] Hok. split; [apply spec_state_sorted; exact Hs|].
    destruct o as [r b sc|r|rs|c n|rs]; cbn [spec_state]; try exact Hc.
    - destruct (lookup r m); [exact Hc|]. apply insert_forall; [cbn in *; exact Hok|exact Hc].
    - clear Hs Hok. revert m Hc. induction rs as [|r rs IH]; intros m Hc; [exact Hc|]. cbn. apply IH. apply remove_forall. exact Hc.
  Qed.

  Lemma wfm_union ms : Forall wfm ms -> wfm (union ms).
  Proof.
    intros H. split.
    - apply union_sorted. eapply Forall_impl; [|exact H]. intros m [A _]. exact A.
    - induction H as [|m ms [_ Hc] _ IH]; [constructor|]. cbn [union fold_right]. apply merge_forall; assumption.
  Qed.

  Record refines (M : machine) (A : st -> smap) (I : st -> Prop) : Prop := {
    r_wf : forall s, I s -> wfm (A s);
    r_step : forall s o, I s -> op_ok o ->
      I (fst (M s o)) /\ A (fst (M s o)) = spec_state (A s) o /\ snd (M s o) = spec_out (A s) o }.

  Definition leaf_abs (s : st) : smap := match s with SLeaf m => m | _ => [] end.
  Definition leaf_inv (s : st) : Prop := match s with SLeaf m => wfm m | _ => False end.

  Lemma leaf_refines : refines (leaf true) leaf_abs leaf_inv.
  Proof.
    split.
    - intros [m|] H; [exact H|contradiction].
    - intros [m|ks aux] o H Hok; [|contradiction]. rewrite leaf_is_spec. cbn [fst snd leaf_abs leaf_inv].
      split; [apply wfm_spec_state; assumption|]. split; reflexivity.
  Qed.

  (* ---- map-level facts used by the n-ary combinators ---- *)
  Lemma union_recv ms r b sc : Forall wfm ms -> ms <> [] -> b = content r ->
    union (map (fun m => spec_state m (Recv r b sc)) ms) = spec_state (union ms) (Recv r b sc).
  Proof.
    intros Hw Hne Hb.
    assert (Hs : Forall ssorted ms) by (eapply Forall_impl; [|exact Hw]; intros m [A _]; exact A).
    apply sorted_ext.
    - apply union_sorted. apply Forall_map. eapply Forall_impl; [|exact Hs]. intros m A. apply spec_state_sorted. exact A.
    - apply spec_state_sorted, union_sorted. exact Hs.
    - intros k. rewrite lookup_union_first.
      2:{ apply Forall_map. eapply Forall_impl; [|exact Hs]. intros m A. apply spec_state_sorted. exact A. }
      rewrite map_map.
      assert (Hk : forall m, wfm m -> lookup k (spec_state m (Recv r b sc)) = if beqb k r then Some b else lookup k m).
      { intros m Hm. cbn [spec_state]. destruct (lookup r m) as [v|] eqn:L.
        - destruct (beqb k r) eqn:E; [|reflexivity]. apply beqb_eq in E. subst k. rewrite L.
          rewrite (wfm_lookup _ _ _ Hm L). congruence.
        - rewrite lookup_insert. reflexivity. }
      rewrite (Hk (union ms) (wfm_union ms Hw)). rewrite lookup_union_first by exact Hs.
      destruct (beqb k r) eqn:E.
      + destruct ms as [|m ms]; [contradiction|]. inversion Hw; subst. cbn [map first_some]. rewrite Hk by assumption. reflexivity.
      + clear Hne. induction Hw as [|m ms Hm _ IH]; [reflexivity|]. cbn [map first_some]. rewrite Hk by exact Hm.
        inversion Hs; subst. rewrite IH by assumption. reflexivity.
  Qed.

  Lemma union_remove ms rs : Forall ssorted ms ->
    union (map (fun m => spec_state m (Remove rs)) ms) = spec_state (union ms) (Remove rs).
  Proof.
    intros Hs. apply sorted_ext.
    - apply union_sorted. apply Forall_map. eapply Forall_impl; [|exact Hs]. intros m A. apply spec_state_sorted. exact A.
    - apply spec_state_sorted, union_sorted. exact Hs.
    - intros k. rewrite lookup_union_first.
      2:{ apply Forall_map. eapply Forall_impl; [|exact Hs]. intros m A. apply spec_state_sorted. exact A. }
      cbn [spec_state]. rewrite lookup_fold_remove by (apply union_sorted; exact Hs). rewrite lookup_union_first by exact Hs.
      rewrite map_map. induction Hs as [|m ms Hm _ IH]; [destruct (mem k rs); reflexivity|].
      cbn [map first_some]. rewrite lookup_fold_remove by exact Hm. destruct (mem k rs) eqn:E; [exact IH|].
      destruct (lookup k m); [reflexivity|exact IH].
  Qed.

  Lemma union_stat ms rs : Forall ssorted ms ->
    canon (concat (map (fun m => stat_map m rs) ms)) = stat_map (union ms) rs.
  Proof.
    intros Hs. apply sorted_ext; [apply canon_sorted|apply stat_map_sorted|].
    intros k. rewrite lookup_canon, lookup_concat, lookup_stat_map, lookup_union_first by exact Hs. rewrite map_map.
    induction Hs as [|m ms Hm _ IH]; [destruct (mem k rs); reflexivity|].
    cbn [map first_some]. rewrite lookup_stat_map. destruct (mem k rs) eqn:E; [|exact IH].
    destruct (lookup k m); cbn [option_map]; [reflexivity|]. rewrite IH. reflexivity.
  Qed.

  Lemma union_enum ms c n : Forall ssorted ms ->
    menum n (map (fun m => firstn n (after c (sized m))) ms) None = firstn n (after c (sized (union ms))).
  Proof.
    intros Hs. rewrite <- union_sized. rewrite <- merged_enumerate_exact.
    2:{ apply Forall_map. eapply Forall_impl; [|exact Hs]. intros m A. apply sized_sorted. exact A. }
    unfold merged_enumerate. rewrite map_map. reflexivity.
  Qed.

  (* ---- lifting the kids' refinements through "call every kid" and "ordered fallback" ---- *)
  Definition triple := (machine * (st -> smap) * (st -> Prop))%type.
  Definition tM (t : triple) : machine := fst (fst t).
  Definition tA (t : triple) : st -> smap := snd (fst t).
  Definition tI (t : triple) : st -> Prop := snd t.
  Definition absl (T : list triple) (ks : list st) : list smap := map2 (fun t k => tA t k) T ks.
  Definition invl (T : list triple) (ks : list st) : Prop := Forall2 (fun t k => tI t k) T ks.
  Definition okl (T : list triple) : Prop := Forall (fun t => refines (tM t) (tA t) (tI t)) T.

  Lemma absl_wf T ks : okl T -> invl T ks -> Forall wfm (absl T ks).
  Proof.
    intros Hok Hi. induction Hi as [|t k T ks Ht _ IH]; [constructor|]. inversion Hok; subst.
    cbn [absl map2]. constructor; [eapply r_wf; eassumption|apply IH; assumption].
  Qed.

  Lemma wfm_sorted_all ms : Forall wfm ms -> Forall ssorted ms.
  Proof. intros H. eapply Forall_impl; [|exact H]. intros m [A _]. exact A. Qed.

  Lemma kid_steps_spec T ks o : okl T -> invl T ks -> op_ok o ->
    let res := kid_steps (map tM T) ks o in
    invl T (map fst res) /\
    absl T (map fst res) = map (fun m => spec_state m o) (absl T ks) /\
    map snd res = map (fun m => spec_out m o) (absl T ks).
  Proof.
    intros Hok Hi Ho. induction Hi as [|t k T ks Ht _ IH]; [cbn; repeat split; constructor|].
    inversion Hok as [|? ? Hr Hok']; subst. destruct (IH Hok') as (A & B & C).
    destruct (r_step _ _ _ Hr k o Ht Ho) as (A1 & B1 & C1).
    cbn [kid_steps map map2 absl]. fold (kid_steps (map tM T) ks o). fold (absl T ks).
    split; [constructor; assumption|]. split.
    - cbn [map2]. fold (absl T (map fst (kid_steps (map tM T) ks o))). rewrite B. f_equal. exact B1.
    - f_equal; assumption.
  Qed.

  Lemma fetch_fold_spec T ks r : okl T -> invl T ks ->
    invl T (fst (fetch_fold (map tM T) ks r)) /\
    absl T (fst (fetch_fold (map tM T) ks r)) = absl T ks /\
    snd (fetch_fold (map tM T) ks r) =
      match first_some (map (lookup r) (absl T ks)) with Some b => OBytes b | None => OErr ENotFound end.
  Proof.
    intros Hok Hi. induction Hi as [|t k T ks Ht Hi' IH]; [cbn; repeat split; constructor|].
    inversion Hok as [|? ? Hr Hok']; subst. specialize (IH Hok'). destruct IH as (A & B & C).
    destruct (r_step _ _ _ Hr k (Fetch r) Ht I) as (A1 & B1 & C1). cbn [spec_state spec_out] in B1, C1.
    cbn [map fetch_fold]. destruct (tM t k (Fetch r)) as [k1 x] eqn:E. cbn [fst snd] in *. subst x.
    cbn [absl map2 map first_some]. fold (absl T ks).
    destruct (lookup r (tA t k)) as [b|] eqn:L.
    - cbn [fst snd]. split; [constructor; assumption|]. split; [cbn [absl map2]; rewrite B1; reflexivity|reflexivity].
    - destruct (fetch_fold (map tM T) ks r) as [rest o'] eqn:E2. cbn [fst snd] in *.
      split; [constructor; assumption|]. split; [cbn [absl map2]; fold (absl T rest); rewrite B1, B; reflexivity|].
      destruct T as [|t' T'].
      + inversion Hi'; subst. cbn. reflexivity.
      + cbn [map]. exact C.
  Qed.

  Lemma has_err_stat ms rs : has_err (map (fun m => spec_out m (Stat rs)) ms) = false.
  Proof. induction ms as [|m ms IH]; [reflexivity|]. cbn. exact IH. Qed.
  Lemma has_err_enum ms c n : has_err (map (fun m => spec_out m (Enum c n)) ms) = false.
  Proof. induction ms as [|m ms IH]; [reflexivity|]. cbn. exact IH. Qed.

  Definition node_abs (T : list triple) (s : st) : smap := match s with SNode ks _ => union (absl T ks) | _ => [] end.
  Definition node_inv (T : list triple) (s : st) : Prop := match s with SNode ks _ => invl T ks | _ => False end.

  Lemma absl_nonempty T ks : invl T ks -> T <> [] -> absl T ks <> [].
  Proof. intros H Hne. destruct H; [contradiction|discriminate]. Qed.

  Theorem replica_refines T : okl T -> T <> [] -> refines (replica (map tM T)) (node_abs T) (node_inv T).
  Proof.
    intros Hok Hne. split.
    - intros [m|ks aux] Hi; [contradiction|]. apply wfm_union. apply absl_wf; assumption.
    - intros [m|ks aux] o Hi Ho; [contradiction|]. cbn [node_inv node_abs] in *.
      pose proof (absl_wf T ks Hok Hi) as Hw. pose proof (wfm_sorted_all _ Hw) as Hs.
      destruct o as [r b sc|r|rs|c n|rs]; cbn [replica].
      + destruct (kid_steps_spec T ks _ Hok Hi Ho) as (A & B & C). cbv zeta in A, B, C. cbn [fst snd node_inv node_abs].
        split; [exact A|]. split; [rewrite B; apply union_recv; [exact Hw|apply absl_nonempty; assumption|exact Ho]|].
        rewrite C.
        assert (forallb is_recv_ok (map (fun m => spec_out m (Recv r b sc)) (absl T ks)) = true) as ->; [|reflexivity].
        clear. induction (absl T ks) as [|m ms IH]; [reflexivity|]. cbn. exact IH.
      + destruct (fetch_fold_spec T ks r Hok Hi) as (A & B & C).
        destruct (fetch_fold (map tM T) ks r) as [ks' x]. cbn [fst snd node_inv node_abs] in *.
        split; [exact A|]. split; [rewrite B; reflexivity|]. rewrite C. cbn [spec_out]. rewrite lookup_union_first by exact Hs. reflexivity.
      + destruct (kid_steps_spec T ks _ Hok Hi Ho) as (A & B & C). cbv zeta in A, B, C. cbn [fst snd node_inv node_abs].
        split; [exact A|]. split; [rewrite B; cbn [spec_state]; rewrite map_id; reflexivity|].
        rewrite C, has_err_stat. rewrite <- (map_map snd stat_list), C, map_map. cbn [spec_out stat_list].
        f_equal. apply union_stat. exact Hs.
      + destruct (kid_steps_spec T ks _ Hok Hi Ho) as (A & B & C). cbv zeta in A, B, C. cbn [fst snd node_inv node_abs].
        split; [exact A|]. split; [rewrite B; cbn [spec_state]; rewrite map_id; reflexivity|].
        rewrite C, has_err_enum. rewrite <- (map_map snd enum_list), C, map_map. cbn [spec_out enum_list].
        f_equal. apply union_enum. exact Hs.
      + destruct (kid_steps_spec T ks _ Hok Hi Ho) as (A & B & C). cbv zeta in A, B, C. cbn [fst snd node_inv node_abs].
        split; [exact A|]. split; [rewrite B; apply union_remove; exact Hs|].
        rewrite C. cbn [spec_out].
        pose proof (absl_nonempty T ks Hi Hne) as Hn. destruct (absl T ks); [contradiction|reflexivity].
  Qed.

  (* ---- cond: write {schema -> both, other -> a}, read a, remove both: behaves as a ---- *)
  Definition cond_abs (ta : triple) (s : st) : smap := match s with SNode [sa; _] _ => tA ta sa | _ => [] end.
  Definition cond_inv (ta tb : triple) (s : st) : Prop :=
    match s with SNode [sa; sb] _ => tI ta sa /\ tI tb sb | _ => False end.

  Theorem cond_refines ta tb : refines (tM ta) (tA ta) (tI ta) -> refines (tM tb) (tA tb) (tI tb) ->
    refines (cond (tM ta) (tM tb)) (cond_abs ta) (cond_inv ta tb).
  Proof.
    intros Ra Rb. split.
    - intros [m|[|sa [|sb [|x ks]]] aux] Hi; try contradiction. destruct Hi as [Ha _]. exact (r_wf _ _ _ Ra sa Ha).
    - intros [m|[|sa [|sb [|x ks]]] aux] o Hi Ho; try contradiction. destruct Hi as [Ha Hb].
      destruct (r_step _ _ _ Ra sa o Ha Ho) as (A1 & B1 & C1). destruct (r_step _ _ _ Rb sb o Hb Ho) as (A2 & B2 & C2).
      destruct o as [r b [|]|r|rs|c n|rs]; cbn [cond];
        destruct (tM ta sa _) as [sa1 x] eqn:Ea; try (destruct (tM tb sb _) as [sb1 y] eqn:Eb);
        cbn [fst snd cond_abs cond_inv] in *; subst.
      + split; [split; assumption|]. split; [exact B1|]. reflexivity.
      + split; [split; assumption|]. split; [exact B1|reflexivity].
      + split; [split; assumption|]. split; [exact B1|reflexivity].
      + split; [split; assumption|]. split; [exact B1|reflexivity].
      + split; [split; assumption|]. split; [exact B1|reflexivity].
      + split; [split; assumption|]. split; [exact B1|]. reflexivity.
  Qed.

  (* ---- proxycache: the cache only ever holds blobs of the origin; behaves as the origin ---- *)
  Definition sub (a b : smap) : Prop := forall k v, lookup k a = Some v -> lookup k b = Some v.
  Definition pc_abs (to : triple) (s : st) : smap := match s with SNode [_; so] _ => tA to so | _ => [] end.
  Definition pc_inv (tc to : triple) (s : st) : Prop :=
    match s with SNode [sc; so] _ => tI tc sc /\ tI to so /\ sub (tA tc sc) (tA to so) | _ => False end.

  Lemma lookup_spec_recv m r b sc k : wfm m -> b = content r ->
    lookup k (spec_state m (Recv r b sc)) = if beqb k r then Some b else lookup k m.
  Proof.
    intros Hm Hb. cbn [spec_state]. destruct (lookup r m) as [v|] eqn:L.
    - destruct (beqb k r) eqn:E; [|reflexivity]. apply beqb_eq in E. subst k. rewrite L, (wfm_lookup _ _ _ Hm L). congruence.
    - apply lookup_insert.
  Qed.

  Lemma lookup_spec_remove m rs k : ssorted m -> lookup k (spec_state m (Remove rs)) = if mem k rs then None else lookup k m.
  Proof. intros Hs. cbn [spec_state]. apply lookup_fold_remove. exact Hs. Qed.

  Lemma mem_keys_lookup r (l : smap) : mem r (map fst l) = match lookup r l with Some _ => true | None => false end.
  Proof.
    induction l as [|[k v] l IH]; [reflexivity|]. cbn [map fst mem lookup]. destruct (beqb r k); [reflexivity|exact IH].
  Qed.

  Lemma mem_filter k (p : bytes -> bool) rs : mem k (filter p rs) = mem k rs && p k.
  Proof.
    induction rs as [|r rs IH]; [reflexivity|]. cbn [filter mem]. destruct (p r) eqn:Ep.
    - cbn [mem]. rewrite IH. destruct (beqb k r) eqn:E; [|reflexivity]. apply beqb_eq in E. subst r. rewrite Ep. cbn. reflexivity.
    - rewrite IH. destruct (beqb k r) eqn:E; [|reflexivity]. apply beqb_eq in E. subst r. rewrite Ep. cbn.
      rewrite andb_false_r. reflexivity.
  Qed.

  Lemma pc_stat_all mc mo rs : wfm mc -> wfm mo -> sub mc mo ->
    canon (stat_map mc rs ++ stat_map mo (filter (fun r => negb (mem r (map fst (stat_map mc rs)))) rs)) = stat_map mo rs.
  Proof.
    intros Hc Ho Hsub. apply sorted_ext; [apply canon_sorted|apply stat_map_sorted|]. intros k.
    rewrite lookup_canon. rewrite <- (app_nil_r (stat_map mo _)).
    change (stat_map mc rs ++ stat_map mo (filter (fun r => negb (mem r (map fst (stat_map mc rs)))) rs) ++ [])
      with (concat [stat_map mc rs; stat_map mo (filter (fun r => negb (mem r (map fst (stat_map mc rs)))) rs)]).
    rewrite lookup_concat. cbn [map first_some]. rewrite !lookup_stat_map, mem_filter, mem_keys_lookup, lookup_stat_map.
    destruct (mem k rs) eqn:Ek; cbn [andb]; [|reflexivity].
    destruct (lookup k mc) as [v|] eqn:Lc; cbn [option_map negb].
    - rewrite (Hsub _ _ Lc). reflexivity.
    - destruct (lookup k mo); reflexivity.
  Qed.

  Lemma pc_stat_none mc mo rs : sub mc mo ->
    filter (fun r => negb (mem r (map fst (stat_map mc rs)))) rs = [] -> stat_map mc rs = stat_map mo rs.
  Proof.
    intros Hsub Hn. apply sorted_ext; [apply stat_map_sorted|apply stat_map_sorted|]. intros k.
    rewrite !lookup_stat_map. destruct (mem k rs) eqn:Ek; [|reflexivity].
    assert (Hm : mem k (filter (fun r => negb (mem r (map fst (stat_map mc rs)))) rs) = false) by (rewrite Hn; reflexivity).
    rewrite mem_filter, Ek, mem_keys_lookup, lookup_stat_map, Ek in Hm. cbn [andb] in Hm.
    destruct (lookup k mc) as [v|] eqn:Lc; cbn [option_map] in *; [|discriminate]. rewrite (Hsub _ _ Lc). reflexivity.
  Qed.

  Theorem proxycache_refines tc to : refines (tM tc) (tA tc) (tI tc) -> refines (tM to) (tA to) (tI to) ->
    refines (proxycache (tM tc) (tM to)) (pc_abs to) (pc_inv tc to).
  Proof.
    intros Rc Ro. split.
    - intros [m|[|sc [|so [|x ks]]] aux] Hi; try contradiction. destruct Hi as (_ & Ho & _). exact (r_wf _ _ _ Ro so Ho).
    - intros [m|[|sc [|so [|x ks]]] aux] o Hi Hok; try contradiction. destruct Hi as (Hc & Ho & Hsub).
      pose proof (r_wf _ _ _ Rc sc Hc) as Wc. pose proof (r_wf _ _ _ Ro so Ho) as Wo.
      destruct o as [r b sch|r|rs|c n|rs]; cbn [proxycache].
      + (* receive: origin, then cache *)
        destruct (r_step _ _ _ Ro so _ Ho Hok) as (A2 & B2 & C2). destruct (tM to so _) as [so1 x]. cbn [fst snd] in *. subst x.
        cbn [spec_out is_recv_ok].
        destruct (r_step _ _ _ Rc sc _ Hc Hok) as (A1 & B1 & C1). destruct (tM tc sc _) as [sc1 y]. cbn [fst snd pc_abs pc_inv] in *.
        split; [|split; [exact B2|reflexivity]]. split; [exact A1|]. split; [exact A2|].
        intros k v. rewrite B1, B2, !lookup_spec_recv by (assumption || exact Hok).
        destruct (beqb k r); [auto|apply Hsub].
      + (* fetch *)
        destruct (r_step _ _ _ Rc sc (Fetch r) Hc I) as (A1 & B1 & C1). destruct (tM tc sc _) as [sc1 x]. cbn [fst snd spec_state spec_out] in *. subst x.
        destruct (lookup r (tA tc sc)) as [b|] eqn:Lc.
        * cbn [fst snd pc_abs pc_inv]. split; [split; [exact A1|split; [exact Ho|rewrite B1; exact Hsub]]|].
          split; [reflexivity|]. rewrite (Hsub _ _ Lc). reflexivity.
        * destruct (r_step _ _ _ Ro so (Fetch r) Ho I) as (A2 & B2 & C2). destruct (tM to so _) as [so1 y]. cbn [fst snd spec_state spec_out] in *. subst y.
          destruct (lookup r (tA to so)) as [b|] eqn:Lo.
          -- assert (Hb : b = content r) by (eapply wfm_lookup; eassumption).
             destruct (r_step _ _ _ Rc sc1 (Recv r b false) A1 Hb) as (A3 & B3 & C3). destruct (tM tc sc1 _) as [sc2 z]. cbn [fst snd pc_abs pc_inv] in *.
             split; [|split; [exact B2|cbn [spec_out]; rewrite Lo; reflexivity]]. split; [exact A3|]. split; [exact A2|].
             intros k v. rewrite B3, B1, B2, lookup_spec_recv by assumption.
             destruct (beqb k r) eqn:E; [apply beqb_eq in E; subst k; rewrite Lo; auto|apply Hsub].
          -- cbn [fst snd pc_abs pc_inv]. split; [|split; [exact B2|cbn [spec_out]; rewrite Lo; reflexivity]]. split; [exact A1|]. split; [exact A2|]. rewrite B1, B2. exact Hsub.
      + (* stat *)
        destruct (r_step _ _ _ Rc sc (Stat rs) Hc I) as (A1 & B1 & C1). destruct (tM tc sc _) as [sc1 x]. cbn [fst snd spec_state spec_out] in *. subst x.
        destruct (filter (fun r => negb (mem r (map fst (stat_map (tA tc sc) rs)))) rs) as [|n0 need] eqn:En.
        * cbn [fst snd pc_abs pc_inv]. split; [split; [exact A1|split; [exact Ho|rewrite B1; exact Hsub]]|]. split; [reflexivity|].
          cbn [spec_out]. f_equal. apply pc_stat_none; assumption.
        * destruct (r_step _ _ _ Ro so (Stat (n0 :: need)) Ho I) as (A2 & B2 & C2). destruct (tM to so _) as [so1 y]. cbn [fst snd spec_state spec_out] in *. subst y.
          cbn [fst snd pc_abs pc_inv]. split; [split; [exact A1|split; [exact A2|rewrite B1, B2; exact Hsub]]|]. split; [exact B2|].
          cbn [spec_out]. f_equal. rewrite <- En. apply pc_stat_all; assumption.
      + (* enumerate: the origin *)
        destruct (r_step _ _ _ Ro so (Enum c n) Ho I) as (A2 & B2 & C2). destruct (tM to so _) as [so1 y]. cbn [fst snd pc_abs pc_inv] in *.
        split; [split; [exact Hc|split; [exact A2|rewrite B2; exact Hsub]]|]. split; [exact B2|exact C2].
      + (* remove: cache, then origin *)
        destruct (r_step _ _ _ Rc sc (Remove rs) Hc I) as (A1 & B1 & C1). destruct (tM tc sc _) as [sc1 x]. cbn [fst snd] in *. subst x.
        destruct (r_step _ _ _ Ro so (Remove rs) Ho I) as (A2 & B2 & C2). destruct (tM to so _) as [so1 y]. cbn [fst snd pc_abs pc_inv spec_out is_ok] in *.
        split; [|split; [exact B2|exact C2]]. split; [exact A1|]. split; [exact A2|].
        intros k v. rewrite B1, B2, !lookup_spec_remove by (apply Wc || apply Wo). destruct (mem k rs); [discriminate|apply Hsub].
  Qed.

  (* ---- shard: every ref lives in the one kid its digest routes to ---- *)
  Fixpoint seq_map {A B} (f : nat -> A -> B) (i : nat) (l : list A) : list B :=
    match l with [] => [] | a :: r => f i a :: seq_map f (S i) r end.

  Lemma nth_error_seq_map {A B} (f : nat -> A -> B) l : forall i j, nth_error (seq_map f i l) j = option_map (f (i + j)%nat) (nth_error l j).
  Proof.
    induction l as [|a l IH]; intros i [|j]; cbn [seq_map nth_error option_map]; try reflexivity.
    - rewrite Nat.add_0_r. reflexivity.
    - rewrite IH. replace (S i + j)%nat with (i + S j)%nat by (rewrite Nat.add_succ_r; reflexivity). reflexivity.
  Qed.

  Lemma seq_map_length {A B} (f : nat -> A -> B) l : forall i, length (seq_map f i l) = length l.
  Proof. induction l as [|a l IH]; intros i; cbn; [reflexivity|rewrite IH; reflexivity]. Qed.

  Lemma seq_steps_spec T ks (f : nat -> op) : okl T -> invl T ks -> (forall i, op_ok (f i)) -> forall i0,
    let res := seq_map2 (fun i m k => m k (f i)) i0 (map tM T) ks in
    invl T (map fst res) /\
    absl T (map fst res) = seq_map (fun i m => spec_state m (f i)) i0 (absl T ks) /\
    map snd res = seq_map (fun i m => spec_out m (f i)) i0 (absl T ks).
  Proof.
    intros Hok Hi Hf. induction Hi as [|t k T ks Ht _ IH]; intros i0; [cbn; repeat split; constructor|].
    inversion Hok as [|? ? Hr Hok']; subst. destruct (IH Hok' (S i0)) as (A & B & C).
    destruct (r_step _ _ _ Hr k (f i0) Ht (Hf i0)) as (A1 & B1 & C1).
    cbn [map seq_map2 absl map2 seq_map fst snd]. fold (absl T ks).
    split; [constructor; assumption|]. split.
    - fold (absl T (map fst (seq_map2 (fun i m k => m k (f i)) (S i0) (map tM T) ks))). rewrite B. f_equal. exact B1.
    - f_equal; assumption.
  Qed.

  Definition routed (n : nat) (ms : list smap) : Prop :=
    forall i m k v, nth_error ms i = Some m -> lookup k m = Some v -> route n k = i.

  Lemma first_some_at (l : list (option (list N))) i : (forall j, j <> i -> nth_error l j = None \/ nth_error l j = Some None) ->
    first_some l = match nth_error l i with Some x => x | None => None end.
  Proof.
    revert i. induction l as [|x l IH]; intros i H; [destruct i; reflexivity|].
    destruct i as [|i].
    - cbn [nth_error first_some]. destruct x as [b|]; [reflexivity|].
      rewrite (IH (length l)).
      + rewrite (proj2 (nth_error_None l (length l))) by apply Nat.le_refl. reflexivity.
      + intros j Hj. specialize (H (S j)). cbn [nth_error] in H. apply H. discriminate.
    - cbn [nth_error first_some]. assert (Hx : x = None).
      { assert (H0 : 0%nat <> S i) by discriminate. destruct (H 0%nat H0) as [E|E]; cbn in E; [discriminate|injection E as ->; reflexivity]. }
      subst x. apply IH. intros j Hj. apply (H (S j)). congruence.
  Qed.

  Lemma lookup_routed n ms k : Forall ssorted ms -> routed n ms ->
    lookup k (union ms) = match nth_error ms (route n k) with Some m => lookup k m | None => None end.
  Proof.
    intros Hs Hr. rewrite lookup_union_first by exact Hs. rewrite (first_some_at _ (route n k)).
    - rewrite nth_error_map. destruct (nth_error ms (route n k)); reflexivity.
    - intros j Hj. rewrite nth_error_map. destruct (nth_error ms j) as [m|] eqn:E; [right|left; reflexivity].
      cbn [option_map]. f_equal. destruct (lookup k m) as [v|] eqn:L; [|reflexivity]. exfalso. apply Hj. symmetry. exact (Hr _ _ _ _ E L).
  Qed.

  Lemma nth_error_update_nth {A} (l : list A) : forall i j x, nth_error (update_nth i x l) j =
    if Nat.eqb i j then match nth_error l j with Some _ => Some x | None => None end else nth_error l j.
  Proof.
    induction l as [|a l IH]; intros i j x.
    - destruct i, j; cbn; try reflexivity; destruct (Nat.eqb i j); reflexivity.
    - destruct i as [|i], j as [|j]; cbn [update_nth nth_error Nat.eqb]; try reflexivity. apply IH.
  Qed.

  Lemma update_nth_length {A} (l : list A) : forall i x, length (update_nth i x l) = length l.
  Proof. induction l as [|a l IH]; intros [|i] x; cbn; try reflexivity. rewrite IH. reflexivity. Qed.

  Lemma absl_update T : forall ks i t k k', nth_error T i = Some t -> nth_error ks i = Some k ->
    absl T (update_nth i k' ks) = update_nth i (tA t k') (absl T ks).
  Proof.
    induction T as [|t0 T IH]; intros [|k0 ks] [|i] t k k' Ht Hk; cbn in *; try discriminate.
    - injection Ht as ->. reflexivity.
    - f_equal. eapply IH; eassumption.
  Qed.

  Lemma invl_update T : forall ks i t k', invl T ks -> nth_error T i = Some t -> tI t k' -> invl T (update_nth i k' ks).
  Proof.
    intros ks i t k' H. revert i. induction H as [|t0 k0 T ks H0 Hrest IH]; intros [|i] Ht Hk; cbn in *; try discriminate.
    - injection Ht as ->. constructor; assumption.
    - constructor; [assumption|apply IH; assumption].
  Qed.

  Lemma nth_error_absl T : forall ks i t k, nth_error T i = Some t -> nth_error ks i = Some k -> nth_error (absl T ks) i = Some (tA t k).
  Proof.
    induction T as [|t0 T IH]; intros [|k0 ks] [|i] t k Ht Hk; cbn in *; try discriminate.
    - injection Ht as ->. injection Hk as ->. reflexivity.
    - eapply IH; eassumption.
  Qed.

  Lemma invl_nth T ks i t k : invl T ks -> nth_error T i = Some t -> nth_error ks i = Some k -> tI t k.
  Proof.
    intros H. revert i. induction H as [|t0 k0 T ks H0 _ IH]; intros [|i] Ht Hk; cbn in *; try discriminate.
    - injection Ht as ->. injection Hk as ->. exact H0.
    - apply (IH i); assumption.
  Qed.

  Lemma invl_length T ks : invl T ks -> length ks = length T.
  Proof. intros H. induction H; cbn; [reflexivity|f_equal; assumption]. Qed.

  Lemma absl_length T ks : invl T ks -> length (absl T ks) = length T.
  Proof. intros H. induction H; cbn; [reflexivity|f_equal; assumption]. Qed.

  Lemma route_lt n k : (0 < n)%nat -> (route n k < n)%nat.
  Proof.
    intros Hn. unfold route. assert (N.of_nat n <> 0%N) by (destruct n; [inversion Hn|discriminate]).
    pose proof (N.mod_lt (sum32 k) (N.of_nat n) H) as L. lia.
  Qed.

  Definition shard_abs (T : list triple) (s : st) : smap := match s with SNode ks _ => union (absl T ks) | _ => [] end.
  Definition shard_inv (T : list triple) (s : st) : Prop :=
    match s with SNode ks _ => invl T ks /\ routed (length T) (absl T ks) | _ => False end.

  Lemma has_err_seq_stat ms (g : nat -> list bytes) : forall i, has_err (seq_map (fun i m => spec_out m (Stat (g i))) i ms) = false.
  Proof. induction ms as [|m ms IH]; intros i; [reflexivity|]. cbn. apply IH. Qed.
  Lemma has_err_seq_remove ms (g : nat -> list bytes) : forall i, has_err (seq_map (fun i m => spec_out m (Remove (g i))) i ms) = false.
  Proof. induction ms as [|m ms IH]; intros i; [reflexivity|]. cbn. apply IH. Qed.

  Lemma map_seq_map {A B C} (g : B -> C) (f : nat -> A -> B) l : forall i, map g (seq_map f i l) = seq_map (fun i a => g (f i a)) i l.
  Proof. induction l as [|a l IH]; intros i; cbn; [reflexivity|rewrite IH; reflexivity]. Qed.

  Lemma Forall_seq_map {A B} (P : B -> Prop) (f : nat -> A -> B) l : (forall i a, In a l -> P (f i a)) -> forall i, Forall P (seq_map f i l).
  Proof.
    induction l as [|a l IH]; intros H i; cbn; constructor; [apply H; left; reflexivity|apply IH; intros j b Hb; apply H; right; exact Hb].
  Qed.

  Theorem shard_refines T : okl T -> T <> [] -> refines (shard (map tM T)) (shard_abs T) (shard_inv T).
  Proof.
    intros Hok Hne. assert (Hn : (0 < length T)%nat) by (destruct T; [contradiction|cbn; apply Nat.lt_0_succ]).
    split.
    - intros [m|ks aux] Hi; [contradiction|]. destruct Hi as [Hi _]. apply wfm_union. apply absl_wf; assumption.
    - intros [m|ks aux] o Hi Ho; [contradiction|]. destruct Hi as [Hi Hr]. cbn [shard_inv shard_abs] in *.
      pose proof (absl_wf T ks Hok Hi) as Hw. pose proof (wfm_sorted_all _ Hw) as Hs.
      assert (Hsingle : forall r, match o with Recv r' _ _ | Fetch r' => r' = r | _ => False end ->
        shard_inv T (fst (shard (map tM T) (SNode ks aux) o)) /\
        shard_abs T (fst (shard (map tM T) (SNode ks aux) o)) = spec_state (union (absl T ks)) o /\
        snd (shard (map tM T) (SNode ks aux) o) = spec_out (union (absl T ks)) o).
      { intros r Hro.
        assert (E : shard (map tM T) (SNode ks aux) o =
                    match nth_error (map tM T) (route (length (map tM T)) r), nth_error ks (route (length (map tM T)) r) with
                    | Some m, Some k => let '(k', x) := m k o in (SNode (update_nth (route (length (map tM T)) r) k' ks) aux, x)
                    | _, _ => (SNode ks aux, OErr EOther) end).
        { destruct o as [r0 b sc|r0| | | ]; try contradiction; subst r0; reflexivity. }
        rewrite E. clear E. rewrite map_length.
        pose proof (route_lt (length T) r Hn) as Hlt.
        destruct (nth_error T (route (length T) r)) as [t|] eqn:Et; [|apply nth_error_None in Et; exfalso; apply (Nat.lt_irrefl (length T)); eapply Nat.le_lt_trans; eassumption].
        destruct (nth_error ks (route (length T) r)) as [k|] eqn:Ek; [|apply nth_error_None in Ek; rewrite (invl_length _ _ Hi) in Ek; exfalso; apply (Nat.lt_irrefl (length T)); eapply Nat.le_lt_trans; eassumption].
        rewrite nth_error_map, Et. cbn [option_map].
        assert (Hrt : refines (tM t) (tA t) (tI t)) by (unfold okl in Hok; rewrite Forall_forall in Hok; apply Hok; eapply nth_error_In; exact Et).
        pose proof (invl_nth _ _ _ _ _ Hi Et Ek) as Hk.
        destruct (r_step _ _ _ Hrt k o Hk Ho) as (A1 & B1 & C1). destruct (tM t k o) as [k' x]. cbn [fst snd shard_inv] in *. subst x.
        pose proof (nth_error_absl _ _ _ _ _ Et Ek) as Ea.
        assert (Hupd : absl T (update_nth (route (length T) r) k' ks) = update_nth (route (length T) r) (spec_state (tA t k) o) (absl T ks)).
        { rewrite (absl_update T ks _ t k k' Et Ek), B1. reflexivity. }
        assert (Hr' : routed (length T) (update_nth (route (length T) r) (spec_state (tA t k) o) (absl T ks))).
        { intros j m kk v Hj Hl. rewrite nth_error_update_nth in Hj. destruct (Nat.eqb (route (length T) r) j) eqn:Ej.
          - apply Nat.eqb_eq in Ej. subst j. rewrite Ea in Hj. injection Hj as <-.
            destruct o as [r0 b sc| | | | ]; try contradiction.
            + subst r0. rewrite lookup_spec_recv in Hl by (try exact Ho; eapply r_wf; eassumption).
              destruct (beqb kk r) eqn:E; [apply beqb_eq in E; subst kk; reflexivity|eapply Hr; eassumption].
            + cbn [spec_state] in Hl. eapply Hr; eassumption.
          - eapply Hr; eassumption. }
        split; [split; [eapply invl_update; eassumption|rewrite Hupd; exact Hr']|].
        assert (Hs' : Forall ssorted (update_nth (route (length T) r) (spec_state (tA t k) o) (absl T ks))).
        { apply Forall_forall. intros m Hm. apply In_nth_error in Hm as [j Hj]. rewrite nth_error_update_nth in Hj.
          destruct (Nat.eqb _ j); [rewrite Forall_forall in Hs; destruct (nth_error (absl T ks) j) eqn:E; [injection Hj as <-; apply spec_state_sorted; apply (r_wf _ _ _ Hrt k Hk)|discriminate]|
            rewrite Forall_forall in Hs; apply Hs; eapply nth_error_In; exact Hj]. }
        split.
        + cbn [shard_abs]. rewrite Hupd. apply sorted_ext; [apply union_sorted; exact Hs'|apply spec_state_sorted, union_sorted; exact Hs|].
          intros kk. rewrite (lookup_routed _ _ kk Hs' Hr'). rewrite nth_error_update_nth.
          destruct o as [r0 b sc|r0| | | ]; try contradiction; subst r0.
          * rewrite lookup_spec_recv by (try exact Ho; apply wfm_union; exact Hw). rewrite (lookup_routed _ _ kk Hs Hr).
            destruct (beqb kk r) eqn:E.
            -- apply beqb_eq in E. subst kk. rewrite Nat.eqb_refl, Ea. rewrite lookup_spec_recv by (try exact Ho; eapply r_wf; eassumption). rewrite beqb_refl. reflexivity.
            -- destruct (Nat.eqb (route (length T) r) (route (length T) kk)) eqn:Ej; [|reflexivity].
               apply Nat.eqb_eq in Ej. rewrite <- Ej, Ea. rewrite lookup_spec_recv by (try exact Ho; eapply r_wf; eassumption). rewrite E. reflexivity.
          * cbn [spec_state]. rewrite (lookup_routed _ _ kk Hs Hr). destruct (Nat.eqb (route (length T) r) (route (length T) kk)) eqn:Ej; [|reflexivity].
            apply Nat.eqb_eq in Ej. rewrite <- Ej, Ea. reflexivity.
        + destruct o as [r0 b sc|r0| | | ]; try contradiction; subst r0; cbn [spec_out]; [reflexivity|].
          rewrite (lookup_routed _ _ r Hs Hr), Ea. reflexivity. }
      destruct o as [r b sc|r|rs|c n|rs]; [exact (Hsingle r eq_refl)|exact (Hsingle r eq_refl)| | | ]; clear Hsingle; cbn [shard].
      + (* stat: each kid is asked for the refs routed to it *)
        rewrite map_length.
        destruct (seq_steps_spec T ks (fun i => Stat (filter (fun r => Nat.eqb (route (length T) r) i) rs)) Hok Hi (fun _ => I) 0%nat) as (A & B & C).
        cbv zeta in A, B, C. cbn [fst snd shard_inv shard_abs].
        assert (Bid : absl T (map fst (seq_map2 (fun i m k => m k (Stat (filter (fun r => Nat.eqb (route (length T) r) i) rs))) 0 (map tM T) ks)) = absl T ks).
        { rewrite B. clear. generalize 0%nat. induction (absl T ks) as [|m ms IH]; intros i; cbn; [reflexivity|rewrite IH; reflexivity]. }
        split; [split; [exact A|rewrite Bid; exact Hr]|]. split; [rewrite Bid; reflexivity|].
        rewrite C, has_err_seq_stat. rewrite <- (map_map snd stat_list), C, map_seq_map. cbn [spec_out stat_list]. f_equal.
        apply sorted_ext; [apply canon_sorted|apply stat_map_sorted|]. intros k.
        rewrite lookup_canon, lookup_concat, lookup_stat_map, (lookup_routed _ _ k Hs Hr).
        rewrite (first_some_at _ (route (length T) k)).
        * rewrite nth_error_map, nth_error_seq_map. destruct (nth_error (absl T ks) (route (length T) k)) as [m|]; cbn [option_map].
          -- rewrite lookup_stat_map, mem_filter. cbn [Nat.add]. rewrite Nat.eqb_refl, andb_true_r. reflexivity.
          -- destruct (mem k rs); reflexivity.
        * intros j Hj. rewrite nth_error_map, nth_error_seq_map. destruct (nth_error (absl T ks) j) as [m|]; cbn [option_map]; [right|left; reflexivity].
          f_equal. rewrite lookup_stat_map, mem_filter. cbn [Nat.add]. destruct (Nat.eqb (route (length T) k) j) eqn:E; [apply Nat.eqb_eq in E; congruence|].
          rewrite andb_false_r. reflexivity.
      + (* enumerate: merge of all kids *)
        destruct (kid_steps_spec T ks _ Hok Hi Ho) as (A & B & C). cbv zeta in A, B, C. cbn [fst snd shard_inv shard_abs].
        assert (Bid : absl T (map fst (kid_steps (map tM T) ks (Enum c n))) = absl T ks) by (rewrite B; cbn [spec_state]; apply map_id).
        split; [split; [exact A|rewrite Bid; exact Hr]|]. split; [rewrite Bid; reflexivity|].
        rewrite C, has_err_enum. rewrite <- (map_map snd enum_list), C, map_map. cbn [spec_out enum_list]. f_equal. apply union_enum. exact Hs.
      + (* remove: each kid removes the refs routed to it *)
        rewrite map_length.
        destruct (seq_steps_spec T ks (fun i => Remove (filter (fun r => Nat.eqb (route (length T) r) i) rs)) Hok Hi (fun _ => I) 0%nat) as (A & B & C).
        cbv zeta in A, B, C. cbn [fst snd shard_inv shard_abs].
        set (ms' := seq_map (fun i m => spec_state m (Remove (filter (fun r => Nat.eqb (route (length T) r) i) rs))) 0 (absl T ks)) in *.
        assert (Hs' : Forall ssorted ms').
        { apply Forall_seq_map. intros i m Hm. apply spec_state_sorted. rewrite Forall_forall in Hs. apply Hs. exact Hm. }
        assert (Hr' : routed (length T) ms').
        { intros j m k v Hj Hl. unfold ms' in Hj. rewrite nth_error_seq_map in Hj. destruct (nth_error (absl T ks) j) as [m0|] eqn:E; [|discriminate].
          cbn [option_map] in Hj. injection Hj as <-. cbv beta in Hl.
          rewrite lookup_fold_remove in Hl by (rewrite Forall_forall in Hs; apply Hs; eapply nth_error_In; exact E).
          destruct (mem k _); [discriminate|]. eapply Hr; eassumption. }
        split; [split; [exact A|rewrite B; exact Hr']|]. split.
        * rewrite B. apply sorted_ext; [apply union_sorted; exact Hs'|apply spec_state_sorted, union_sorted; exact Hs|].
          intros k. rewrite (lookup_routed _ _ k Hs' Hr'), lookup_spec_remove by (apply union_sorted; exact Hs).
          rewrite (lookup_routed _ _ k Hs Hr). unfold ms'. rewrite nth_error_seq_map.
          destruct (nth_error (absl T ks) (route (length T) k)) as [m|] eqn:E; cbn [option_map]; [|destruct (mem k rs); reflexivity].
          rewrite lookup_spec_remove by (rewrite Forall_forall in Hs; apply Hs; eapply nth_error_In; exact E).
          rewrite mem_filter. cbn [Nat.add]. rewrite Nat.eqb_refl, andb_true_r. reflexivity.
        * rewrite C, has_err_seq_remove. reflexivity.
  Qed.
End Content.


(* the union store is read-only: writes are refused without any effect, reads see the sorted union *)
Lemma union_rejects_writes ms s : forall o, (match o with Recv _ _ _ | Remove _ => True | _ => False end) ->
  match s with SNode _ _ => union_m ms s o = (s, OErr EReadonly) | _ => True end.
Proof. intros o H. destruct s; [exact I|]. destruct o; try contradiction; reflexivity. Qed.

Lemma subfetch_spec b off len : subfetch b off len =
  if (off <? 0)%Z || (len <? 0)%Z || (Z.of_nat (length b) <? off)%Z then None
  else Some (firstn (Z.to_nat len) (skipn (Z.to_nat off) b)).
Proof. reflexivity. Qed.

Lemma subfetch_whole b : subfetch b 0 (Z.of_nat (length b)) = Some b.
Proof.
  unfold subfetch. assert ((0 <? 0)%Z || (Z.of_nat (length b) <? 0)%Z || (Z.of_nat (length b) <? 0)%Z = false) as -> by lia.
  cbn [Z.to_nat skipn]. rewrite Nat2Z.id, firstn_all. reflexivity.
Qed.

(* C12 — model of pkg/blobserver/replica: the receive tally, ordered-fallback fetch, first-reporter-wins stat,
   merged enumeration over the read replicas. *)
From Coq Require Import List NArith Bool.
From PK.Base Require Import Bytes Lex SortedMap.
From PK.Model Require Import Merge.
Import ListNotations.
Local Open Scope N_scope.

(* what one replica's ReceiveNoHash reported: an error, or success with a size *)
Inductive rres := RErr | ROk (sz : N).
(* what ReceiveBlob returns: (sb, nil) | (_, err) | (zero SizedRef, nil) — the last when the loop ends with no error
   recorded and the quorum never reached (only possible if minWritesForSuccess exceeds the replica count) *)
Inductive ack := Ack (sz : N) | Fail | NilZero.

(* the "for range sto.replicas { res := <-resc ... }" loop over results in arrival order *)
Fixpoint tally (minw : nat) (size : N) (nsucc : nat) (err : bool) (l : list rres) : ack :=
  match l with
  | [] => if err then Fail else NilZero
  | RErr :: rest => tally minw size nsucc true rest
  | ROk sz :: rest =>
      if sz =? size
      then (if Nat.eqb (S nsucc) minw then Ack sz else tally minw size (S nsucc) err rest)
      else tally minw size nsucc true rest
  end.
Definition receive_tally (minw : nat) (size : N) (arrivals : list rres) : ack := tally minw size 0 false arrivals.

Definition good (size : N) (r : rres) : bool := match r with ROk sz => sz =? size | RErr => false end.
Definition count_good (size : N) (l : list rres) : nat := length (filter (good size) l).

(* Fetch: the read replicas in configured order, first success wins *)
Fixpoint fetch_first (answers : list (option bytes)) : option bytes :=
  match answers with
  | [] => None
  | Some b :: _ => Some b
  | None :: r => fetch_first r
  end.

(* StatBlobs: callbacks of all read replicas in arrival order; need = the requested refs *)
Fixpoint remove_all (k : bytes) (l : list bytes) : list bytes :=
  match l with [] => [] | x :: r => if beqb k x then remove_all k r else x :: remove_all k r end.
Fixpoint mem (k : bytes) (l : list bytes) : bool :=
  match l with [] => false | x :: r => beqb k x || mem k r end.
Fixpoint stat_dedupe (need : list bytes) (events : list kv) : list kv :=
  match events with
  | [] => []
  | (k, v) :: r => if mem k need then (k, v) :: stat_dedupe (remove_all k need) r else stat_dedupe need r
  end.

(* EnumerateBlobs = mergedEnumerate over the read replicas *)
Definition replica_enumerate (readers : list smap) (cursor : bytes) (limit : nat) : smap :=
  merged_enumerate readers cursor limit.

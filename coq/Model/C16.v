(* C16 — JSON signing (pkg/jsonsign): how Sign assembles the signed document, how NewVerificationRequest splits it, and the
   order of the checks of Verify.  JSON parsing, key lookup and the OpenPGP signature check are parameters. *)
From Coq Require Import String.
From Coq Require Import List NArith Bool.
From PK.Base Require Import Bytes.
Import ListNotations.
Local Open Scope N_scope.

(* the 13-byte separator: comma, quote, camliSig, quote, colon, quote *)
Definition sep : bytes := [44; 34; 99; 97; 109; 108; 105; 83; 105; 103; 34; 58; 34].
Definition comma : N := 44.
Definition rbrace : N := 125.
Definition lbrace : N := 123.

(* bytes.LastIndex *)
Fixpoint last_index (s ba : bytes) : option nat :=
  match ba with
  | [] => if is_prefix s [] then Some O else None
  | _ :: r =>
      match last_index s r with
      | Some i => Some (S i)
      | None => if is_prefix s ba then Some O else None
      end
  end.

(* unicode.IsSpace on the bytes Sign can meet at the end of a document (ASCII white space; 0x85 and 0xA0 are not valid
   single bytes of UTF-8 text) *)
Definition is_space (c : N) : bool := N.eqb c 32 || (N.leb 9 c && N.leb c 13).
Fixpoint trim_right (ba : bytes) : bytes :=
  match ba with
  | [] => []
  | c :: r => match trim_right r with [] => if is_space c then [] else [c] | r' => c :: r' end
  end.

(* Sign: the trimmed document without its closing brace, the separator, the signature text, then quote, closing brace, newline *)
Definition sign (doc sigtext : bytes) : option bytes :=
  let t := trim_right doc in
  match rev t with
  | c :: body_rev => if N.eqb c rbrace then Some (rev body_rev ++ sep ++ sigtext ++ [34; rbrace; 10]) else None
  | [] => None
  end.

(* NewVerificationRequest: BP, BPJ, BS *)
Definition split (ba : bytes) : option (bytes * bytes * bytes) :=
  match last_index sep ba with
  | Some i => Some (firstn i ba, firstn i ba ++ [rbrace], lbrace :: skipn (S i) ba)
  | None => None
  end.

Inductive stage := SNoSep | SSigJSON | SPayload | SKey | SBadSig | SOk.

Section Verify.
  Context {signer key : Type}.
  Variable parse_sig : bytes -> option bytes.          (* BS is a JSON object with the single key camliSig, a string *)
  Variable parse_payload : bytes -> option signer.     (* BPJ is JSON with camliVersion and a well-formed camliSigner *)
  Variable lookup : signer -> option key.              (* the public key blob is found and parses *)
  Variable sig_ok : key -> bytes -> bytes -> bool.     (* OpenPGP: the signature text is a valid signature by key over these bytes *)

  Definition verify (ba : bytes) : stage :=
    match split ba with
    | None => SNoSep
    | Some (bp, bpj, bs) =>
        match parse_sig bs with
        | None => SSigJSON
        | Some sg =>
            match parse_payload bpj with
            | None => SPayload
            | Some who =>
                match lookup who with
                | None => SKey
                | Some k => if sig_ok k bp sg then SOk else SBadSig
                end
            end
        end
    end.
End Verify.

(* C09 — paging through search results and the 'around' window (pkg/search/query.go).
   The full ordered result is the list of matching permanodes in enumeration order (time descending, then blobref
   descending: corpus.go lazySortedPermanodes reversed). A page request carries an optional continuation token
   (time, ref) of the last item seen. *)
From Coq Require Import List NArith ZArith Bool.
Import ListNotations.

Definition item := (Z * N)%type.    (* time in ns (negative = before 1970), rank of the blobref in Ref.Less order *)

(* enumeration order: newer first; on equal time the greater ref first *)
Definition before (a b : item) : bool :=
  Z.ltb (fst b) (fst a) || (Z.eqb (fst a) (fst b) && N.ltb (snd b) (snd a)).

(* the continue constraint of PermanodeConstraint.blobMatches: not after the token's time, and on equal time a
   strictly smaller ref *)
Definition after_token (tok x : item) : bool :=
  negb (Z.ltb (fst tok) (fst x)) && negb (Z.eqb (fst x) (fst tok) && negb (N.ltb (snd x) (snd tok))).

(* parsePermanodeContinueToken / setResultContinue: "pn:<unixnano>:<ref>"; [signed] tells whether the number is read
   with ParseInt (true) or ParseUint (false: a negative number does not parse and the token is ignored) *)
Definition token_accepted (signed : bool) (tok : item) : bool := signed || Z.leb 0 (fst tok).

(* one request: the matching items in enumeration order, cut at the limit; a continuation token iff the page is full *)
Definition page (signed : bool) (l : list item) (cont : option item) (limit : nat) : list item * option item :=
  let l' := match cont with
            | Some tok => if token_accepted signed tok then filter (after_token tok) l else l
            | None => l
            end in
  let p := firstn limit l' in
  (p, if Nat.eqb (length p) limit then Some (last p (0%Z, 0%N)) else None).

(* the client loop: follow tokens until none is returned *)
Fixpoint follow (signed : bool) (fuel : nat) (l : list item) (cont : option item) (limit : nat) : list (list item) :=
  match fuel with
  | O => []
  | S f => let '(p, tok) := page signed l cont limit in
           match tok with
           | Some t => p :: follow signed f l (Some t) limit
           | None => [p]
           end
  end.

(* ---- the streaming 'around' window of Handler.Query (sorted candidate source, limit > 0) ---- *)
Record astate := { a_res : list N; a_found : bool; a_stop : bool }.
Definition around_step (limit : nat) (pivot : N) (s : astate) (x : N) : astate :=
  if a_stop s then s else
  let res := a_res s ++ [x] in
  if a_found s then {| a_res := res; a_found := true; a_stop := Nat.eqb (length res) limit |}
  else if N.eqb x pivot then
    let res' := if Nat.ltb limit (2 * length res) then skipn (length res - Nat.div limit 2 - 1) res else res in
    {| a_res := res'; a_found := true; a_stop := Nat.eqb (length res') limit |}
  else if Nat.eqb (length res) limit then {| a_res := skipn (Nat.div (length res) 2) res; a_found := false; a_stop := false |}
  else {| a_res := res; a_found := false; a_stop := false |}.
Definition around (limit : nat) (pivot : N) (matches : list N) : list N :=
  let s := fold_left (around_step limit pivot) matches {| a_res := []; a_found := false; a_stop := false |} in
  if a_found s then a_res s else [].

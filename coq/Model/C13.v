(* C13 — transient lower-layer failures.
   1. the judge: a history of calls on a store, some of which failed, is explained by the reference map if every failed
      call can be read as "happened" or "did not happen" so that all the other answers are the reference map's;
   2. StatBlobsParallelHelper's use of its gate (counting tokens), with cancellation after a failing worker;
   3. diskpacked's append when the index write fails, also right after a roll-over to the next pack. *)
From Coq Require Import List NArith Bool Arith.
Import ListNotations.

(* ---------- 1. the judge ---------- *)
Definition memN (b : N) (l : list N) : bool := existsb (N.eqb b) l.
Definition addN (b : N) (l : list N) : list N := if memN b l then l else b :: l.
Definition delN (b : N) (l : list N) : list N := filter (fun x => negb (N.eqb x b)) l.
Fixpoint insertN (x : N) (l : list N) : list N := match l with [] => [x] | y :: r => if N.leb x y then x :: l else y :: insertN x r end.
Definition sortN (l : list N) : list N := fold_right insertN [] l.
Fixpoint ns_eqb (a b : list N) : bool := match a, b with [], [] => true | x :: r, y :: s => N.eqb x y && ns_eqb r s | _, _ => false end.

Inductive op := Receive (r : N) | Fetch (r : N) | Stat (r : N) | Enum | Remove (r : N).
Inductive out := OAck | OPresent (b : bool) | OList (l : list N) | OFailed.

Definition apply (o : op) (s : list N) : list N :=
  match o with Receive r => addN r s | Remove r => delN r s | _ => s end.
Definition answers (s : list N) (o : op) (x : out) : bool :=
  match o, x with
  | Receive _, OAck | Remove _, OAck => true
  | Fetch r, OPresent b | Stat r, OPresent b => Bool.eqb b (memN r s)
  | Enum, OList l => ns_eqb (sortN l) (sortN s)
  | _, _ => false
  end.

(* a failed call either took effect or it did not; a failed read has no effect either way *)
Fixpoint explain (s : list N) (h : list (op * out)) : bool :=
  match h with
  | [] => true
  | (o, OFailed) :: r => explain s r || explain (apply o s) r
  | (o, x) :: r => answers s o x && explain (apply o s) r
  end.

(* the same run with the choices made explicit *)
Fixpoint run_with (choices : list bool) (s : list N) (h : list (op * out)) : bool :=
  match h with
  | [] => true
  | (o, OFailed) :: r =>
      match choices with
      | c :: cs => run_with cs (if c then apply o s else s) r
      | [] => false
      end
  | (o, x) :: r => answers s o x && run_with choices (apply o s) r
  end.

(* ---------- 2. the stat helper's gate ---------- *)
(* one iteration of the loop over the blobs: has a previous worker already failed when this iteration looks (cancelled)?
   and how does this blob's worker end *)
Inductive wres := WFound | WNotFound | WError.
Record iter := { sees_cancel : bool; result : wres }.

(* tokens taken and given back; [check_first] = the loop looks at the cancellation before it takes a token
   (source regenerated today) *)
Fixpoint helper (check_first : bool) (its : list iter) (failed_before : bool) (taken released : nat) : nat * nat :=
  match its with
  | [] => (taken, released)
  | it :: rest =>
      let cancelled := sees_cancel it && failed_before in
      if check_first then
        if cancelled then (taken, released)
        else helper check_first rest (failed_before || match result it with WError => true | _ => false end) (S taken) (S released)
      else
        if cancelled then (S taken, released)          (* the token of this iteration is never given back *)
        else helper check_first rest (failed_before || match result it with WError => true | _ => false end) (S taken) (S released)
  end.
Definition leaked (check_first : bool) (its : list iter) : nat := let '(t, r) := helper check_first its false 0 0 in t - r.

(* ---------- 3. diskpacked append, index failure, roll-over ---------- *)
(* a pack is the list of its records (refs); 0 stands for a run of garbage bytes that is not a record *)
Record dpst := { packs : list (list N); rows : list N }.
Definition cur (s : dpst) : list N := last (packs s) [].
Definition set_cur (s : dpst) (p : list N) : list (list N) := removelast (packs s) ++ [p].

(* [index_before_roll] = the index row is written (and a failure undone) before the store rolls over to a new pack *)
Definition append (index_before_roll : bool) (max : nat) (s : dpst) (r : N) (index_ok : bool) : dpst :=
  let written := cur s ++ [r] in
  let full := Nat.ltb max (length written) in
  if index_before_roll then
    if index_ok then {| packs := if full then set_cur s written ++ [[]] else set_cur s written; rows := r :: rows s |}
    else s                                                        (* seek back and truncate the current pack *)
  else
    if full then
      if index_ok then {| packs := set_cur s written ++ [[]]; rows := r :: rows s |}
      else {| packs := set_cur s written ++ [[0%N]]; rows := rows s |}   (* the NEW pack is "truncated" up to the old offset *)
    else
      if index_ok then {| packs := set_cur s written; rows := r :: rows s |} else s.

(* a pack walks (Reindex) iff it holds no garbage *)
Definition walks (s : dpst) : bool := forallb (fun p => negb (memN 0%N p)) (packs s).

(* ---- encrypt: an upload writes the encrypted blob, then the meta blob that maps the plaintext ref to it, then the index
   row; each of the three writes may fail, and the call stops at the first failure.  The recovery procedure rebuilds the
   index from the meta blobs alone. ---- *)
Record encst := { e_metas : list nat; e_index : list nat }.
Inductive efail := ENoFail | EFailBlob | EFailMeta | EFailIndex.
Definition enc_receive (meta_first : bool) (s : encst) (r : nat) (f : efail) : encst * bool (* acknowledged *) :=
  if existsb (Nat.eqb r) (e_index s) then (s, true) (* the duplicate check answers from the index *)
  else match f with
       | EFailBlob => (s, false)
       | EFailMeta => if meta_first then (s, false) else ({| e_metas := e_metas s; e_index := r :: e_index s |}, false)
       | EFailIndex => if meta_first then ({| e_metas := r :: e_metas s; e_index := e_index s |}, false) else (s, false)
       | ENoFail => ({| e_metas := r :: e_metas s; e_index := r :: e_index s |}, true)
       end.
Definition enc_rebuild (s : encst) : encst := {| e_metas := e_metas s; e_index := e_metas s |}.
Fixpoint enc_run (meta_first : bool) (s : encst) (l : list (nat * efail)) : encst * list nat (* acknowledged refs *) :=
  match l with
  | [] => (s, [])
  | (r, f) :: rest => let '(s1, ack) := enc_receive meta_first s r f in
                      let '(s2, acks) := enc_run meta_first s1 rest in (s2, if ack then r :: acks else acks)
  end.
Definition enc_serves (s : encst) (r : nat) : bool := existsb (Nat.eqb r) (e_index s).

(* C03 — crash safety of the two disk stores.
   Part 1: the file-per-blob store (pkg/blobserver/files): its VFS call sequence over a file system with a durable and a
           volatile layer (bytes written since the last Sync of a file may be lost at a crash; rename is atomic).
   Part 2: the packed store (pkg/blobserver/diskpacked) at the level of pack records: append, remove, torn tails, reopen,
           the duplicate rule of ReceiveBlob, fetch through the index, and the pack walk of Reindex. *)
From Coq Require Import List NArith Bool Arith.
Import ListNotations.

(* ======================= Part 1: files ======================= *)
(* a temp file: which blob it is for, how long the blob is, bytes written, bytes known durable *)
Record tmp := { t_blob : N; t_size : nat; t_written : nat; t_synced : nat }.
(* a .dat file carries the same numbers: what a crash can leave of it is between synced and written *)
Record fsst := { tmps : list (N * tmp); dats : list (N * tmp) }.
Definition fs0 : fsst := {| tmps := []; dats := [] |}.

Inductive call :=
| KMkdir
| KTemp (t : N) (b : N) (size : nat)     (* TempFile in the blob's directory *)
| KWrite (t : N) (n : nat)
| KSync (t : N)
| KClose (t : N)
| KLstatTmp (t : N)
| KRename (t : N)                        (* to <ref>.dat *)
| KLstatDat (b : N)
| KRemoveTmp (t : N)
| KRemoveDat (b : N).

Definition tlookup (t : N) (l : list (N * tmp)) : option tmp :=
  match find (fun e => N.eqb (fst e) t) l with Some e => Some (snd e) | None => None end.
Definition tdel (t : N) (l : list (N * tmp)) : list (N * tmp) := filter (fun e => negb (N.eqb (fst e) t)) l.
Definition tset (t : N) (x : tmp) (l : list (N * tmp)) : list (N * tmp) := (t, x) :: tdel t l.

Definition apply (s : fsst) (k : call) : fsst :=
  match k with
  | KMkdir | KClose _ | KLstatTmp _ | KLstatDat _ => s
  | KTemp t b size => {| tmps := tset t {| t_blob := b; t_size := size; t_written := 0; t_synced := 0 |} (tmps s); dats := dats s |}
  | KWrite t n =>
      match tlookup t (tmps s) with
      | Some x => {| tmps := tset t {| t_blob := t_blob x; t_size := t_size x; t_written := t_written x + n; t_synced := t_synced x |} (tmps s); dats := dats s |}
      | None => s
      end
  | KSync t =>
      match tlookup t (tmps s) with
      | Some x => {| tmps := tset t {| t_blob := t_blob x; t_size := t_size x; t_written := t_written x; t_synced := t_written x |} (tmps s); dats := dats s |}
      | None => s
      end
  | KRename t =>
      match tlookup t (tmps s) with
      | Some x => {| tmps := tdel t (tmps s); dats := tset (t_blob x) x (dats s) |}
      | None => s
      end
  | KRemoveTmp t => {| tmps := tdel t (tmps s); dats := dats s |}
  | KRemoveDat b => {| tmps := tmps s; dats := tdel b (dats s) |}
  end.

Definition applies (s : fsst) (ks : list call) : fsst := fold_left apply ks s.

(* what ReceiveBlob does, for a blob written in the given chunks *)
Definition receive_calls (t b : N) (chunks : list nat) : list call :=
  [KMkdir; KTemp t b (fold_right Nat.add 0 chunks)] ++ map (KWrite t) chunks ++ [KSync t; KClose t; KLstatTmp t; KRename t; KLstatDat b].

(* after a crash a .dat file holds between synced and written bytes: it is certainly complete iff synced = size *)
Definition dat_safe (x : tmp) : bool := Nat.eqb (t_synced x) (t_size x) && Nat.eqb (t_written x) (t_size x).
Definition fs_safe (s : fsst) : bool := forallb (fun e => dat_safe (snd e)) (dats s).
(* the blobs a restarted store presents (enumerate ignores everything that is not <ref>.dat) *)
Definition visible (s : fsst) : list N := map fst (dats s).

(* ======================= Part 2: diskpacked ======================= *)
(* one record of a pack: complete (possibly removed), or torn by a crash *)
Inductive item :=
| IRec (r : N) (size : nat) (hdr_deleted : bool) (zeroed : nat)   (* header rewritten to x..-0..; first [zeroed] body bytes zeroed *)
| ITornHeader                                                      (* a prefix of a header *)
| ITornBody (r : N) (size have : nat).                             (* complete header, have < size body bytes *)

Record dp := { pack : list item; idx : list (N * nat) (* ref -> position of its record in [pack] *) }.
Definition dp0 : dp := {| pack := []; idx := [] |}.

Definition ilook (r : N) (ix : list (N * nat)) : option nat :=
  match find (fun e => N.eqb (fst e) r) ix with Some e => Some (snd e) | None => None end.
Definition idel (r : N) (ix : list (N * nat)) : list (N * nat) := filter (fun e => negb (N.eqb (fst e) r)) ix.
Definition iset (r : N) (p : nat) (ix : list (N * nat)) : list (N * nat) := (r, p) :: idel r ix.

(* is the extent of the record at position p wholly inside the file?  (a torn body at the very end is not) *)
Definition extent_inside (pk : list item) (p : nat) : bool :=
  match nth_error pk p with
  | Some (IRec _ _ _ _) => true
  | Some (ITornBody _ _ _) => Nat.ltb (S p) (length pk)    (* later appends made the file long enough *)
  | _ => false
  end.

Fixpoint upd {A} (l : list A) (p : nat) (x : A) : list A :=
  match l, p with
  | [], _ => []
  | _ :: r, O => x :: r
  | y :: r, S q => y :: upd r q x
  end.

(* ReceiveBlob: duplicate unless the indexed extent is beyond the file; otherwise append, fsync, index Set *)
Definition receive (s : dp) (r : N) (size : nat) : dp :=
  match ilook r (idx s) with
  | Some p => if extent_inside (pack s) p then s
              else {| pack := pack s ++ [IRec r size false 0]; idx := iset r (length (pack s)) (idx s) |}
  | None => {| pack := pack s ++ [IRec r size false 0]; idx := iset r (length (pack s)) (idx s) |}
  end.

(* the duplicate rule with its comparison as a parameter: does it compare the size of the pack file with the END of the
   indexed extent (the code), or only with its start *)
Definition extent_start_inside (pk : list item) (p : nat) : bool :=
  match nth_error pk p with Some (IRec _ _ _ _) | Some (ITornBody _ _ _) => true | _ => false end.
Definition receive_with (check_end : bool) (s : dp) (r : N) (size : nat) : dp :=
  match ilook r (idx s) with
  | Some p => if (if check_end then extent_inside (pack s) p else extent_start_inside (pack s) p) then s
              else {| pack := pack s ++ [IRec r size false 0]; idx := iset r (length (pack s)) (idx s) |}
  | None => {| pack := pack s ++ [IRec r size false 0]; idx := iset r (length (pack s)) (idx s) |}
  end.

(* how far a removal got: nothing / index row gone / header rewritten / k body bytes zeroed.
   [index_first] = the order of the source: true when RemoveBlobs commits the index deletion before touching the pack *)
Inductive rm_stage := RmNone | RmIndex | RmHeader | RmZero (k : nat) | RmDone
| RmZeroOnly (k : nat).   (* k body bytes zeroed under an intact header: only reachable if the data is destroyed before the header is rewritten *)

Definition mark (pk : list item) (p : nat) (hdr : bool) (z : nat) : list item :=
  match nth_error pk p with
  | Some (IRec r size _ _) => upd pk p (IRec r size hdr (Nat.min z size))
  | _ => pk
  end.

Definition remove_upto (index_first : bool) (s : dp) (r : N) (st : rm_stage) : dp :=
  match ilook r (idx s) with
  | None => s
  | Some p =>
      let size := match nth_error (pack s) p with Some (IRec _ sz _ _) => sz | _ => 0 end in
      if index_first then
        match st with
        | RmNone => s
        | RmIndex => {| pack := pack s; idx := idel r (idx s) |}
        | RmHeader => {| pack := mark (pack s) p true 0; idx := idel r (idx s) |}
        | RmZero k => {| pack := mark (pack s) p true k; idx := idel r (idx s) |}
        | RmDone => {| pack := mark (pack s) p true size; idx := idel r (idx s) |}
        | RmZeroOnly k => {| pack := mark (pack s) p false k; idx := idel r (idx s) |}
        end
      else
        match st with
        | RmNone | RmIndex => s                      (* the old order: the index row goes last *)
        | RmHeader => {| pack := mark (pack s) p true 0; idx := idx s |}
        | RmZero k => {| pack := mark (pack s) p true k; idx := idx s |}
        | RmDone => {| pack := mark (pack s) p true size; idx := idel r (idx s) |}
        | RmZeroOnly k => {| pack := mark (pack s) p false k; idx := idx s |}
        end
  end.

(* where an in-flight append stopped *)
Inductive ap_stage := ApHeader | ApBody (have : nat) | ApNoIndex | ApDone.
Definition append_upto (s : dp) (r : N) (size : nat) (st : ap_stage) : dp :=
  match st with
  | ApHeader => {| pack := pack s ++ [ITornHeader]; idx := idx s |}
  | ApBody have => if Nat.ltb have size then {| pack := pack s ++ [ITornBody r size have]; idx := idx s |}
                   else {| pack := pack s ++ [IRec r size false 0]; idx := idx s |}
  | ApNoIndex => {| pack := pack s ++ [IRec r size false 0]; idx := idx s |}
  | ApDone => {| pack := pack s ++ [IRec r size false 0]; idx := iset r (length (pack s)) (idx s) |}
  end.

Inductive dop :=
| DReceive (r : N) (size : nat)
| DRemove (r : N)
| DCrashReceive (r : N) (size : nat) (st : ap_stage)     (* the process dies inside this receive; then restarts *)
| DCrashRemove (r : N) (st : rm_stage)
(* not a crash of this code: the index row of an acknowledged upload is there, the tail of the pack is not (a disk that
   lied about fsync, a pack restored from a truncated copy) - the state the duplicate rule of ReceiveBlob exists for *)
| DLostTail (r : N) (size have : nat).

Section Order.
  Variable index_first : bool.
  Definition dstep (s : dp) (o : dop) : dp :=
    match o with
    | DReceive r size => receive s r size
    | DRemove r => remove_upto index_first s r RmDone
    | DCrashReceive r size st =>
        match ilook r (idx s) with
        | Some p => if extent_inside (pack s) p then s else append_upto s r size st
        | None => append_upto s r size st
        end
    | DCrashRemove r st => remove_upto index_first s r st
    | DLostTail r size have =>
        if Nat.ltb have size then {| pack := pack s ++ [ITornBody r size have]; idx := iset r (length (pack s)) (idx s) |} else s
    end.
  Definition druns (s : dp) (os : list dop) : dp := fold_left dstep os s.
End Order.

(* Fetch through the index: intact / absent / wrong bytes (zeros of a half-removed blob, or a torn extent) *)
Inductive fclass := FIntact | FAbsent | FCorrupt.
Definition dfetch (s : dp) (r : N) : fclass :=
  match ilook r (idx s) with
  | None => FAbsent
  | Some p =>
      match nth_error (pack s) p with
      | Some (IRec r' size _ zeroed) => if N.eqb r' r && Nat.eqb zeroed 0 then FIntact else if Nat.eqb size 0 then FIntact else FCorrupt
      | _ => FCorrupt
      end
  end.

(* the pack walk of Reindex (overwrite): Some rows, or None when the walk stops with an error.
   [eof_check]: whether walkPack stops quietly at a header whose body runs past the end of the file *)
Fixpoint walk (eof_check : bool) (pk : list item) (pos : nat) (acc : list (N * nat)) : option (list (N * nat)) :=
  match pk with
  | [] => Some acc
  | IRec r size hdr _ :: rest => walk eof_check rest (S pos) (if hdr then acc else iset r pos acc)
  | ITornHeader :: rest => match rest with [] => Some acc | _ => None end          (* in the middle: the next ']' closes garbage *)
  | ITornBody r size have :: rest =>
      match rest with
      | [] => if eof_check then Some acc else Some (iset r pos acc)                   (* at the end of the file *)
      | _ => None                                                                  (* the seek lands inside a later record *)
      end
  end.
Definition reindex (eof_check : bool) (s : dp) : option dp :=
  match walk eof_check (pack s) 0 [] with Some ix => Some {| pack := pack s; idx := ix |} | None => None end.

(* C07 — permanode attributes and deletions.
   SPEC  : doc/schema/permanode.md + delete.md: apply, in claim-date order, the signer's non-deleted set/add/del claims
           dated no later than T; deleted = targeted by a delete claim that is not itself deleted.
   MODEL : the three query paths of the code:
           corpus cache  (corpus.go cacheAttrClaim / appendAttrClaim / fixupLastClaim / restoreInvariants / valuesAtSigner),
           corpus fallback loops (AppendPermanodeAttrValues / PermanodeHasAttrValue / claimsIntfAttrValue over pm.Claims),
           describe (search/describe.go populatePermanodeFields over AppendClaims, which skips deleted claims),
           and the recursive deletion test (index.go isDeleted / corpus.go IsDeleted). *)
From Coq Require Import List NArith ZArith Bool.
Import ListNotations.

Inductive ckind := KSet | KAdd | KDel.
(* values are opaque tokens; 0 is the empty string *)
Record claim := { c_ref : N; c_signer : N; c_date : Z; c_kind : ckind; c_attr : N; c_val : N }.

(* ---------- SPEC ---------- *)
Definition apply (v : list N) (c : claim) : list N :=
  match c_kind c with
  | KSet => [c_val c]
  | KAdd => v ++ [c_val c]
  | KDel => if N.eqb (c_val c) 0 then [] else filter (fun x => negb (N.eqb x (c_val c))) v
  end.

Fixpoint insert_by_date (c : claim) (l : list claim) : list claim :=
  match l with
  | [] => [c]
  | x :: r => if Z.ltb (c_date c) (c_date x) then c :: l else x :: insert_by_date c r
  end.
Definition sort_by_date (l : list claim) : list claim := fold_right insert_by_date [] l.

(* signer filter: 0 = any signer *)
Definition signer_ok (sf : N) (c : claim) : bool := N.eqb sf 0 || N.eqb (c_signer c) sf.
(* at = None means "now": every claim counts *)
Definition date_ok (at_ : option Z) (c : claim) : bool := match at_ with None => true | Some t => Z.leb (c_date c) t end.

Definition attr_at (claims : list claim) (deleted : N -> bool) (at_ : option Z) (sf attr : N) : list N :=
  fold_left apply
    (sort_by_date (filter (fun c => negb (deleted (c_ref c)) && date_ok at_ c && signer_ok sf c && N.eqb (c_attr c) attr) claims))
    [].

(* ---------- deletion ---------- *)
(* delete claims: (deleter claim ref, target ref) *)
Definition dels := list (N * N).
Fixpoint is_deleted (fuel : nat) (d : dels) (r : N) : bool :=
  match fuel with
  | O => false
  | S f => existsb (fun p => N.eqb (snd p) r && negb (is_deleted f d (fst p))) d
  end.

(* ---------- corpus cache ---------- *)
(* attrValues as an association list attr -> values *)
Definition avals := list (N * list N).
Fixpoint aget (m : avals) (a : N) : list N := match m with [] => [] | (k, v) :: r => if N.eqb k a then v else aget r a end.
Fixpoint aset (m : avals) (a : N) (v : list N) : avals :=
  match m with [] => [(a, v)] | (k, w) :: r => if N.eqb k a then (k, v) :: r else (k, w) :: aset r a v end.
Definition cache_claim (m : avals) (c : claim) : avals := aset m (c_attr c) (apply (aget m (c_attr c)) c).

(* per-permanode state: Claims (sorted by date once invariants hold), attr cache for all signers,
   per-signer caches *)
Record pmeta := { p_claims : list claim; p_attr : avals; p_signer : list (N * avals) }.
Definition sget (l : list (N * avals)) (s : N) : option avals :=
  match find (fun p => N.eqb (fst p) s) l with Some p => Some (snd p) | None => None end.
Fixpoint sset (l : list (N * avals)) (s : N) (m : avals) : list (N * avals) :=
  match l with [] => [(s, m)] | (k, w) :: r => if N.eqb k s then (k, m) :: r else (k, w) :: sset r s m end.

(* appendAttrClaim; with a single signer the all-signers map doubles as that signer's map *)
Definition append_attr_claim (pm : pmeta) (c : claim) : pmeta :=
  let attr' := cache_claim (p_attr pm) c in
  match sget (p_signer pm) (c_signer c) with
  | Some sc =>
      match p_signer pm with
      | [_] => {| p_claims := p_claims pm; p_attr := attr'; p_signer := [(c_signer c, attr')] |}   (* shared map *)
      | _ => {| p_claims := p_claims pm; p_attr := attr'; p_signer := sset (p_signer pm) (c_signer c) (cache_claim sc c) |}
      end
  | None =>
      match p_signer pm with
      | [] => {| p_claims := p_claims pm; p_attr := attr'; p_signer := [(c_signer c, attr')] |}
      | [(s0, _)] => (* second signer: the first one gets a copy of what pm.attr held so far *)
          {| p_claims := p_claims pm; p_attr := attr'; p_signer := [(s0, p_attr pm); (c_signer c, cache_claim [] c)] |}
      | l => {| p_claims := p_claims pm; p_attr := attr'; p_signer := l ++ [(c_signer c, cache_claim [] c)] |}
      end
  end.

Definition restore_invariants (claims : list claim) : pmeta :=
  let sorted := sort_by_date claims in
  fold_left append_attr_claim sorted {| p_claims := sorted; p_attr := []; p_signer := [] |}.

(* mergeClaimRow + fixupLastClaim for a claim arriving at a running corpus *)
Definition add_claim (pm : option pmeta) (c : claim) : pmeta :=
  match pm with
  | None => restore_invariants [c]
  | Some pm =>
      let cl := p_claims pm ++ [c] in
      match rev (p_claims pm) with
      | [] => restore_invariants cl
      | lastc :: _ =>
          if Z.ltb (c_date lastc) (c_date c)
          then append_attr_claim {| p_claims := cl; p_attr := p_attr pm; p_signer := p_signer pm |} c
          else restore_invariants cl
      end
  end.
Definition add_claims (arrival : list claim) : option pmeta :=
  fold_left (fun pm c => Some (add_claim pm c)) arrival None.

(* valuesAtSigner: the cache answers only when no claim is newer than [at] *)
Definition values_at_signer (pm : pmeta) (at_ : option Z) (sf : N) : option avals :=
  let m := if N.eqb sf 0 then Some (p_attr pm) else sget (p_signer pm) sf in
  match m with
  | None => Some []     (* signer filter set but no attributes for it: (nil, true) *)
  | Some m =>
      match at_ with
      | None => Some m
      | Some t => match rev (p_claims pm) with
                  | [] => Some m
                  | lastc :: _ => if Z.ltb t (c_date lastc) then None else Some m
                  end
      end
  end.

(* the fallback loop of AppendPermanodeAttrValues (claims already in date order; deletions are NOT consulted) *)
Definition fallback_values (claims : list claim) (at_ : option Z) (sf attr : N) : list N :=
  fold_left apply (filter (fun c => N.eqb (c_attr c) attr && date_ok at_ c && signer_ok sf c) claims) [].

(* Corpus.AppendPermanodeAttrValues *)
Definition corpus_values (pm : pmeta) (at_ : option Z) (sf attr : N) : list N :=
  match values_at_signer pm at_ sf with
  | Some m => aget m attr
  | None => fallback_values (p_claims pm) at_ sf attr
  end.

(* ---------- describe: populatePermanodeFields ---------- *)
Definition describe_apply (v : list N) (c : claim) : list N :=
  match c_kind c with
  | KDel => if N.eqb (c_val c) 0 then [] else filter (fun x => negb (N.eqb x (c_val c))) v
  | KSet => if N.eqb (c_val c) 0 then [] else [c_val c]            (* "delete(attr); if value empty: continue" *)
  | KAdd => if N.eqb (c_val c) 0 then v else if existsb (N.eqb (c_val c)) v then v else v ++ [c_val c]
  end.
Definition describe_values (claims : list claim) (deleted : N -> bool) (at_ : option Z) (sf attr : N) : list N :=
  fold_left describe_apply
    (sort_by_date (filter (fun c => negb (deleted (c_ref c)) && date_ok at_ c && signer_ok sf c && N.eqb (c_attr c) attr) claims))
    [].

(* C15 — files and directories as schema blobs.
   READER  : pkg/schema/filereader.go readerForOffset + ReadAt over a tree of parts (refs resolved: a blob part carries
             its blob's bytes, a bytes part carries the parts of the bytes schema it points to).
   WRITER  : pkg/schema/filewriter.go writeFileChunks over an abstract rolling-checksum oracle, the span tree, and
             addBytesParts.
   SETS    : Builder.SetStaticSetMembers and dirreader's staticSet. *)
From Coq Require Import List NArith Bool Arith.
From PK.Generated Require Import Consts.
Import ListNotations.

(* ---------------- reader ---------------- *)
Inductive part :=
| Hole (size : nat)
| Blob (size off : nat) (content : list N)
| Sub (size off : nat) (parts : list part).

Definition part_size (p : part) : nat := match p with Hole n => n | Blob n _ _ => n | Sub n _ _ => n end.
Fixpoint sum_sizes (ps : list part) : nat := match ps with [] => 0 | q :: r => part_size q + sum_sizes r end.

(* SPEC: doc/schema/bytes.md *)
Fixpoint denote_part (p : part) : list N :=
  match p with
  | Hole n => repeat 0%N n
  | Blob n o c => firstn n (skipn o c)
  | Sub n o ps => firstn n (skipn o ((fix den (ps : list part) : list N := match ps with [] => [] | q :: r => denote_part q ++ den r end) ps))
  end.
Fixpoint denote (ps : list part) : list N := match ps with [] => [] | q :: r => denote_part q ++ denote r end.

(* io.ReadFull(want) from the reader readerForOffset builds for part p0 at in-part offset offr (< size):
   hole: LimitReader(zeros, size - offr); blob/bytes: Seek(offr + off) then LimitReader(size - offr).
   A bytes part is read through the sub FileReader (SectionReader -> ReadAt), chunk by chunk. *)
Fixpoint chunk (p0 : part) (offr want : nat) {struct p0} : list N :=
  match p0 with
  | Hole n => repeat 0%N (Nat.min want (n - offr))
  | Blob n o c => firstn (Nat.min want (n - offr)) (skipn (offr + o) c)
  | Sub n o ps =>
      let fix rfo (ps : list part) (off want : nat) : list N :=
          match ps with
          | [] => []
          | p :: rest => if part_size p <=? off then rfo rest (off - part_size p) want else chunk p off want
          end in
      let fix loop (fuel pos want : nat) : list N :=
          match fuel with
          | O => []
          | S f => match rfo ps pos want with
                   | [] => []
                   | c => c ++ loop f (pos + length c) (want - length c)
                   end
          end in
      let total := (fix sum (ps : list part) : nat := match ps with [] => 0 | q :: r => part_size q + sum r end) ps in
      let w := Nat.min (Nat.min want (n - offr)) (total - (offr + o)) in
      loop (S w) (offr + o) w
  end.

(* readerForOffset on the top-level parts, then ReadFull(want) *)
Fixpoint rfo (ps : list part) (off want : nat) : list N :=
  match ps with
  | [] => []
  | p :: rest => if part_size p <=? off then rfo rest (off - part_size p) want else chunk p off want
  end.

(* FileReader.ReadAt(p, offset) with len(p) = want: the bytes it returns *)
Definition read_loop (ps : list part) : nat -> nat -> nat -> list N :=
  fix loop (fuel pos want : nat) : list N :=
    match fuel with
    | O => []
    | S f => match rfo ps pos want with
             | [] => []
             | c => c ++ loop f (pos + length c) (want - length c)
             end
    end.
Definition read_at (ps : list part) (off want : nat) : list N :=
  if sum_sizes ps <=? off then [] else read_loop ps (S want) off want.

(* a well-formed tree: every part lies inside what it points into *)
Fixpoint wf_part (p : part) : bool :=
  match p with
  | Hole _ => true
  | Blob n o c => o + n <=? length c
  | Sub n o ps =>
      (o + n <=? (fix sum (ps : list part) : nat := match ps with [] => 0 | q :: r => part_size q + sum r end) ps)
      && (fix all (ps : list part) : bool := match ps with [] => true | q :: r => wf_part q && all r end) ps
  end.
Fixpoint wf_parts (ps : list part) : bool := match ps with [] => true | q :: r => wf_part q && wf_parts r end.

(* ---------------- writer: the chunker ---------------- *)
(* per byte position n (1-based, after the byte was consumed): does the rolling checksum split here and with how many
   bits; [eof_from]: the position from which noteEOFReader.sawEOF is true (depends on how the source delivers data).
   Positions are binary numbers and the byte loop is N.iter, so the model also runs on megabytes. *)
Record oracle := { on_split : N -> bool; bits_at : N -> N; eof_from : N }.
Record cut := { c_from : N; c_to : N; c_bits : N; c_final : bool }.
Record cstate := { s_n : N; s_last : N; s_bs : N; s_cuts : list cut (* newest first *) }.

Section Chunker.
  Variables (maxb firstc small : N) (o : oracle).
  Local Open Scope N_scope.
  (* one iteration of the "for { c := ReadByte ... }" loop for a byte that exists *)
  Definition cstep (st : cstate) : cstate :=
    let n := s_n st + 1 in
    let bs := s_bs st + 1 in
    let cutting (bits : N) := {| s_n := n; s_last := n; s_bs := 0;
                                 s_cuts := {| c_from := s_last st; c_to := n; c_bits := bits; c_final := false |} :: s_cuts st |} in
    let going := {| s_n := n; s_last := s_last st; s_bs := bs; s_cuts := s_cuts st |} in
    if bs =? maxb then cutting 20
    else if eof_from o <=? n then going
    else if on_split o n && (firstc <? n) && (small <? bs) then cutting (bits_at o n)
    else if n =? firstc then cutting 18
    else going.
  Definition cinit : cstate := {| s_n := 0; s_last := 0; s_bs := 0; s_cuts := [] |}.
  (* at EOF the remaining bytes form the last span *)
  Definition cfinish (st : cstate) : list cut :=
    rev (if s_n st =? s_last st then s_cuts st
         else {| c_from := s_last st; c_to := s_n st; c_bits := 0; c_final := true |} :: s_cuts st).
  Definition chunks (total : N) : list cut := cfinish (N.iter total cstep cinit).
End Chunker.

(* the span tree: a new span adopts the trailing spans with fewer bits *)
Inductive span := Span (from to bits : N) (children : list span).
Definition span_bits (s : span) : N := match s with Span _ _ b _ => b end.

(* spans kept newest first *)
Fixpoint take_lower (bits : N) (stack : list span) : list span * list span :=
  match stack with
  | s :: rest => if N.ltb (span_bits s) bits then let '(ch, keep) := take_lower bits rest in (s :: ch, keep) else ([], stack)
  | [] => ([], [])
  end.
Definition push_span (stack : list span) (c : cut) : list span :=
  if c_final c then Span (c_from c) (c_to c) 0%N [] :: stack
  else let '(ch, keep) := take_lower (c_bits c) stack in Span (c_from c) (c_to c) (c_bits c) (rev ch) :: keep.

(* addBytesParts order: a span's children (earlier data) first, then its own chunk *)
Fixpoint flatten_span (s : span) : list (N * N) :=
  match s with
  | Span f t _ ch => (fix fl (l : list span) : list (N * N) := match l with [] => [] | x :: r => flatten_span x ++ fl r end) ch ++ [(f, t)]
  end.
Definition flatten_stack (stack : list span) : list (N * N) := concat (map flatten_span (rev stack)).
Definition build_tree (cuts : list cut) : list span := fold_left push_span cuts [].

(* addBytesParts: the parts a span contributes; a single childless child is promoted to a plain blob part *)
Inductive shape := ShBlob (size : N) | ShBytes (kids : list shape).
Fixpoint span_shapes (s : span) : list shape :=
  match s with
  | Span f t _ ch =>
      (match ch with
       | [] => []
       | [Span f1 t1 _ []] => [ShBlob (t1 - f1)%N]
       | _ => [ShBytes ((fix cat (l : list span) : list shape := match l with [] => [] | x :: r => span_shapes x ++ cat r end) ch)]
       end) ++ [ShBlob (t - f)%N]
  end.
Definition file_shapes (stack : list span) : list shape := concat (map span_shapes (rev stack)).

(* ---------------- static sets ---------------- *)
Inductive sset := SMembers (ms : list N) | SMerge (subs : list sset).

Fixpoint slices {A} (k per : nat) (l : list A) : list (list A) :=
  match k with O => [] | S k' => firstn per l :: slices k' per (skipn per l) end.

Fixpoint split_set (fuel m : nat) (members : list N) : sset :=
  match fuel with
  | O => SMembers members
  | S f =>
      let n := length members in
      if n <=? m then SMembers members else
      let sn0 := n / m in
      let '(sn, per) := if sn0 <? m then (sn0, m) else (m - 1, n / (m - 1)) in
      let subs := map (split_set f m) (slices sn per members) in
      let rest := skipn (per * sn) members in
      SMerge (subs ++ (if per * sn <? n then [split_set f m rest] else []))
  end.

(* dirreader.staticSet *)
Fixpoint set_members (s : sset) : list N :=
  match s with
  | SMembers ms => ms
  | SMerge subs => (fix cat (l : list sset) : list N := match l with [] => [] | x :: r => set_members x ++ cat r end) subs
  end.

Fixpoint max_width (s : sset) : nat :=
  match s with
  | SMembers ms => length ms
  | SMerge subs => Nat.max (length subs) ((fix mx (l : list sset) : nat := match l with [] => 0 | x :: r => Nat.max (max_width x) (mx r) end) subs)
  end.

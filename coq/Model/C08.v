(* C08 — search planning (pkg/search/query.go): the matcher compiled from a constraint, the planner predicates that
   decide a restricted candidate enumeration is safe, the candidate enumerations as the corpus builds them, post-sort and
   truncation.  Blobs are identified by the rank of their blobref in Ref.Less order. *)
From Coq Require Import List NArith ZArith Bool.
Import ListNotations.

Inductive ctype := TNone | TPermanode | TFile | TDir | TClaim | TSet.
Definition ctype_eqb (a b : ctype) : bool :=
  match a, b with TNone, TNone | TPermanode, TPermanode | TFile, TFile | TDir, TDir | TClaim, TClaim | TSet, TSet => true | _, _ => false end.

Record blobm := {
  m_ref : N; m_type : ctype; m_size : N;
  m_deleted : bool;               (* permanode deleted *)
  m_mtime : option Z;             (* PermanodeModtime *)
  m_ctime : option Z;             (* PermanodeAnyTime *)
  m_attrs : list (N * list N);    (* current values per attribute (owner's claims) *)
  m_ntypes : list N;              (* camliNodeType values ever claimed (permanodesSetByNodeType) *)
  m_whole : N;                    (* wholeRef of a file, 0 = none *)
  m_kids : list N                 (* live edges: the current camliMember / camliPath:* values that are blobrefs *)
}.
Definition world := list blobm.

Definition attr_node_type : N := 1.   (* "camliNodeType" *)

Inductive lop := OAnd | OOr | OXor | ONot.
(* the value part of a PermanodeConstraint: none, Value (exact), or a ValueMatches string constraint, given by the set of
   values it accepts *)
(* PExactIf v ok: Value v together with a ValueMatches constraint in the same struct; ok = does v satisfy that constraint *)
Inductive pval := PNone | PExact (v : N) | PIn (vs : list N) | PExactIf (v : N) (ok : bool).
(* one Constraint struct: every set field must match (allMustMatch); no field set = neverMatch *)
Inductive cst :=
| Node (logical : option (lop * cst * cst)) (anything : bool) (camli : ctype) (anycamli : bool)
       (perm : option (N * pval))     (* PermanodeConstraint{Attr, Value | ValueMatches}: attr 0 = no attribute constraint *)
       (whole : N)                    (* FileConstraint{WholeRef}, 0 = unset *)
       (size : option (N * N))        (* BlobSize{min,max} *)
       (refis : N)                    (* BlobRefPrefix that is a complete blobref, 0 = unset *)
       (prefix : option (list N))     (* the struct's further conjuncts that the planner never looks into - a BlobRefPrefix that
                                         is a proper prefix, the non-wholeRef fields of a FileConstraint, a DirConstraint, the
                                         fields of a PermanodeConstraint beyond attr/value/valueMatches/relation (numValue,
                                         valueAll, valueMatchesInt, valueInSet, modTime, time, at, skipHidden) - given together by
                                         the set of refs satisfying all of them: the theorems hold for every such set *)
       (rel : option (bool * bool * cst)).  (* PermanodeConstraint{Relation}: (parent rather than child?, All rather than Any?, sub) *)

Definition avals (b : blobm) (a : N) : list N :=
  match find (fun p => N.eqb (fst p) a) (m_attrs b) with Some p => snd p | None => [] end.
Definition memN (x : N) (l : list N) : bool := existsb (N.eqb x) l.
Definition pval_matches (v : pval) (vals : list N) : bool :=
  match v with PNone => true | PExact x => memN x vals | PIn vs => existsb (fun x => memN x vs) vals | PExactIf x ok => memN x vals && ok end.

Definition find_blob (w : world) (r : N) : option blobm := find (fun q => N.eqb (m_ref q) r) w.
(* the permanodes related to b over live edges: its children, or the permanodes it is a child of *)
Definition related (w : world) (parent : bool) (b : blobm) : list N :=
  if parent then map m_ref (filter (fun q => memN (m_ref b) (m_kids q)) w) else m_kids b.
Definition is_nil {A} (l : list A) : bool := match l with [] => true | _ => false end.

(* SPEC / matcher (genMatcher is compositional; the two coincide by construction, the theorems are about the planner) *)
Fixpoint matches (w : world) (c : cst) (b : blobm) : bool :=
  match c with
  | Node logical anything camli anycamli perm whole size refis prefix rel =>
      let conds :=
        (match logical with
         | Some (OAnd, x, y) => [matches w x b && matches w y b]
         | Some (OOr, x, y) => [matches w x b || matches w y b]
         | Some (OXor, x, y) => [xorb (matches w x b) (matches w y b)]
         | Some (ONot, x, _) => [negb (matches w x b)]
         | None => []
         end) ++
        (if anything then [true] else []) ++
        (match camli with TNone => [] | t => [ctype_eqb (m_type b) t] end) ++
        (if anycamli then [negb (ctype_eqb (m_type b) TNone)] else []) ++
        (match perm with
         | Some (a, v) => [ctype_eqb (m_type b) TPermanode &&
                           (N.eqb a 0 || pval_matches v (avals b a))]
         | None => [] end) ++
        (if N.eqb whole 0 then [] else [ctype_eqb (m_type b) TFile && N.eqb (m_whole b) whole]) ++
        (match size with Some (lo, hi) => [N.leb lo (m_size b) && (N.eqb hi 0 || N.leb (m_size b) hi)] | None => [] end) ++
        (if N.eqb refis 0 then [] else [N.eqb (m_ref b) refis]) ++
        (match prefix with Some l => [memN (m_ref b) l] | None => [] end) ++
        (match rel with
         | Some (parent, all, sub) =>
             (* every related blob is looked up and given to the sub-constraint's matcher: Any = one of them matches,
                All = there is one and all of them match *)
             let ms := map (fun r => match find_blob w r with Some q => matches w sub q | None => false end) (related w parent b) in
             [ctype_eqb (m_type b) TPermanode && (if all then negb (is_nil ms) && forallb (fun x => x) ms else existsb (fun x => x) ms)]
         | None => [] end) in
      match conds with [] => false | _ => forallb (fun x => x) conds end
  end.

(* Constraint.checkValid on this fragment: logical operands are checked recursively, a PermanodeConstraint with an
   attribute needs a value constraint *)
Fixpoint valid (c : cst) : bool :=
  match c with
  | Node logical _ _ _ perm _ _ _ _ rel =>
      (match logical with
       | Some (ONot, x, _) => valid x
       | Some (_, x, y) => valid x && valid y
       | None => true end) &&
      (match perm with Some (a, v) => N.eqb a 0 || match v with PNone => false | _ => true end | None => true end) &&
      (* a relation lives inside a PermanodeConstraint *)
      (match rel with Some _ => match perm with Some _ => true | None => false end | None => true end)
  end.

(* ---- planner predicates ---- *)
Fixpoint only_perm (c : cst) : bool :=
  match c with
  | Node logical _ camli _ perm _ _ _ _ _ =>
      (match perm with Some _ => true | None => false end) || ctype_eqb camli TPermanode ||
      match logical with Some (OAnd, x, y) => only_perm x || only_perm y | _ => false end
  end.

Definition exact_type (perm : option (N * pval)) : option N :=
  match perm with
  | Some (a, PExact v) | Some (a, PExactIf v _) => if N.eqb a attr_node_type then Some v else None   (* the planner looks at Value only *)
  | _ => None end.

Fixpoint perm_types (c : cst) : list N :=
  match c with
  | Node logical _ _ _ perm _ _ _ _ _ =>
      match exact_type perm with
      | Some v => [v]
      | None =>
          match logical with
          | Some (OAnd, x, y) => match perm_types x with [] => perm_types y | sa => sa end
          | Some (OOr, x, y) => match perm_types x, perm_types y with [], _ | _, [] => [] | sa, sb => sa ++ sb end
          | _ => []
          end
      end
  end.

Fixpoint at_most_one (c : cst) : N :=
  match c with
  | Node logical _ _ _ _ _ _ refis _ _ =>
      if negb (N.eqb refis 0) then refis else
      match logical with
      | Some (OAnd, x, y) => if negb (N.eqb (at_most_one x) 0) then at_most_one x else at_most_one y
      | _ => 0%N
      end
  end.

Fixpoint file_by_whole (c : cst) : bool :=
  match c with
  | Node logical _ _ _ _ whole _ _ _ _ =>
      (match logical with Some (OAnd, x, y) => file_by_whole x || file_by_whole y | _ => false end) || negb (N.eqb whole 0)
  end.

Inductive sortt := SUnspecified | SUnsorted | SLastModDesc | SCreatedDesc | SBlobRefAsc.
Inductive source := SrcLastMod | SrcCreated | SrcTypes (ts : list N) | SrcOne (r : N) | SrcFiles | SrcCamli (t : ctype) | SrcAll.

Definition top_camli (c : cst) : ctype * bool := match c with Node _ _ camli anycamli _ _ _ _ _ _ => (camli, anycamli) end.

(* plannedQuery: an unspecified sort becomes CreatedDesc for permanode-only constraints *)
Definition planned_sort (c : cst) (s : sortt) : sortt :=
  match s with SUnspecified => if only_perm c then SCreatedDesc else SUnspecified | _ => s end.

(* pickCandidateSource (with a corpus) *)
Definition pick_source (c : cst) (s : sortt) : source :=
  let after_perm :=
    if negb (N.eqb (at_most_one c) 0) then SrcOne (at_most_one c)
    else if file_by_whole c then SrcFiles
    else let '(camli, anycamli) := top_camli c in
         if anycamli || negb (ctype_eqb camli TNone) then SrcCamli camli else SrcAll in
  if only_perm c then
    match s with
    | SLastModDesc => SrcLastMod
    | SCreatedDesc => SrcCreated
    | _ => match perm_types c with [] => after_perm | ts => SrcTypes ts end
    end
  else after_perm.

Definition src_sorted (s : source) : bool := match s with SrcLastMod | SrcCreated => true | _ => false end.

(* newest first; on equal times the greater ref first *)
Fixpoint insert_desc (key : blobm -> option Z) (b : blobm) (l : list blobm) : list blobm :=
  match l with
  | [] => [b]
  | x :: r =>
      let before := match key b, key x with
                    | Some tb, Some tx => Z.ltb tx tb || (Z.eqb tx tb && N.ltb (m_ref x) (m_ref b))
                    | _, _ => false end in
      if before then b :: l else x :: insert_desc key b r
  end.
Definition sort_desc (key : blobm -> option Z) (l : list blobm) : list blobm := fold_right (insert_desc key) [] l.
Definition is_some {A} (o : option A) : bool := match o with Some _ => true | None => false end.

(* the enumerations (lazySortedPermanodes skips deleted permanodes and those without the time) *)
Definition candidates (w : world) (s : source) : list blobm :=
  match s with
  | SrcLastMod => sort_desc m_mtime (filter (fun b => ctype_eqb (m_type b) TPermanode && negb (m_deleted b) && is_some (m_mtime b)) w)
  | SrcCreated => sort_desc m_ctime (filter (fun b => ctype_eqb (m_type b) TPermanode && negb (m_deleted b) && is_some (m_ctime b)) w)
  | SrcTypes ts => filter (fun b => ctype_eqb (m_type b) TPermanode && existsb (fun t => memN t (m_ntypes b)) ts) w
  | SrcOne r => filter (fun b => N.eqb (m_ref b) r) w
  | SrcFiles => filter (fun b => ctype_eqb (m_type b) TFile) w
  | SrcCamli TNone => filter (fun b => negb (ctype_eqb (m_type b) TNone)) w
  | SrcCamli t => filter (fun b => ctype_eqb (m_type b) t) w
  | SrcAll => w
  end.

Fixpoint insert_ref (b : blobm) (l : list blobm) : list blobm :=
  match l with [] => [b] | x :: r => if N.ltb (m_ref b) (m_ref x) then b :: l else x :: insert_ref b r end.

Inductive qres := QOrdered (l : list N) | QSet (l : list N) (take : option nat) | QError.

(* Handler.Query without Around/Continue: matched candidates, post-sort, truncation *)
Definition query (w : world) (c : cst) (s0 : sortt) (limit : Z) : qres :=
  let s := planned_sort c s0 in
  let src := pick_source c s in
  let matched := filter (matches w c) (candidates w src) in
  let lim (l : list blobm) := if Z.leb limit 0 then l else firstn (Z.to_nat limit) l in
  if negb (valid c) then QError else
  if src_sorted src then QOrdered (map m_ref (lim matched))
  else match s with
       | SUnspecified | SUnsorted =>
           QSet (map m_ref matched) (if Z.leb limit 0 then None else Some (Z.to_nat limit))
       | SBlobRefAsc => QOrdered (map m_ref (lim (fold_right insert_ref [] matched)))
       | SCreatedDesc =>
           if negb (only_perm c) then QError
           else if forallb (fun b => is_some (m_ctime b)) matched
                then QOrdered (map m_ref (lim (sort_desc m_ctime matched))) else QError
       | SLastModDesc => QError
       end.

(* the world facts the planner relies on, as checked on every world the harness builds: the current camliNodeType values
   of a blob are among the types it ever had; blobrefs are distinct *)
Definition wf_blobb (b : blobm) : bool := forallb (fun v => memN v (m_ntypes b)) (avals b attr_node_type).
Fixpoint distinct_refs (w : world) : bool :=
  match w with [] => true | b :: r => negb (existsb (fun x => N.eqb (m_ref x) (m_ref b)) r) && distinct_refs r end.
Definition wf_worldb (w : world) : bool := forallb wf_blobb w && distinct_refs w.

(* C18 — the HTTP blob protocol: the enumerate and stat handlers (pkg/blobserver/handlers) and the client loops
   (pkg/client) over a store that is a sorted map (C01).  Refs are byte strings ordered as in Base/Lex. *)
From Coq Require Import String.
From Coq Require Import List NArith Bool Arith.
From PK.Base Require Import Bytes Lex SortedMap.
From PK.Generated Require Import Consts.
From PK.Proofs Require Import Paging.
Import ListNotations.

(* ---- enumerate ---- *)
(* the "limit" form value: absent -> default; unparsable or above the maximum -> the maximum *)
Definition eff_limit (given : option (option nat)) (default max : nat) : nat :=
  match given with
  | None => default
  | Some None => max                                   (* not a number *)
  | Some (Some n) => if Nat.ltb max n then max else n
  end.

(* one response: the page, and continueAfter = the last ref when the page is full *)
Definition enum_response (m : smap) (after : bytes) (limit : nat) : smap * option bytes :=
  let p := enumerate m after limit in
  (p, if Nat.ltb (length p) limit then None else match p with [] => None | _ => Some (fst (last p ([], []))) end).

(* the client: follow continueAfter until a response has none *)
Fixpoint client_enumerate (fuel : nat) (m : smap) (after : bytes) (limit : nat) : list smap :=
  match fuel with
  | O => []
  | S f => let '(p, cont) := enum_response m after limit in
           p :: match cont with Some a => client_enumerate f m a limit | None => [] end
  end.

(* with maxwaitsec > 0 (and no "after") the handler must still list what is there; [wait_loop_runs] says whether its loop
   condition lets the first enumeration happen (regenerated from the source) *)
Definition enum_response_wait (loop_runs : bool) (m : smap) (limit : nat) : smap * option bytes :=
  if loop_runs then enum_response m [] limit else ([], None).

(* ---- stat ---- *)
Inductive stat_result := StatOk (found : list (bytes * bytes)) | StatTooMany.
Fixpoint dedup_refs (seen refs : list bytes) : list bytes :=
  match refs with
  | [] => []
  | r :: rest => if existsb (beqb r) seen then dedup_refs seen rest else r :: dedup_refs (r :: seen) rest
  end.
Definition stat_handler (max : nat) (m : smap) (refs : list bytes) : stat_result :=
  if Nat.ltb max (length refs) then StatTooMany
  else StatOk (flat_map (fun r => match lookup r m with Some v => [(r, v)] | None => [] end) (dedup_refs [] refs)).

(* Client.StatBlobs: one request per blob; [report_once] = the callback runs once per found blob (source regenerated) *)
Definition client_stat (report_once : bool) (m : smap) (refs : list bytes) : list (bytes * bytes) :=
  flat_map (fun r => match lookup r m with Some v => if report_once then [(r, v)] else [(r, v); (r, v)] | None => [] end) refs.

(* C04 — blobpacked: packing a file's blobs from the loose store into zip blobs.  Blobs and zips are numbers; a zip is the
   list of logical blobs it contains (its manifest).  The byte layout of a zip (offsets, archive/zip) is not modelled. *)
From Coq Require Import List NArith Bool.
Import ListNotations.

Definition memN (b : N) (l : list N) : bool := existsb (N.eqb b) l.
Definition addN (b : N) (l : list N) : list N := if memN b l then l else b :: l.
Definition delN (bs : list N) (l : list N) : list N := filter (fun x => negb (memN x bs)) l.

Record st := {
  small : list N;                 (* loose blobs *)
  large : list (N * list N);      (* zip -> the blobs inside (its manifest) *)
  brow : list (N * N);            (* b: rows, logical blob -> zip *)
  zrow : list N;                  (* z: rows *)
  wrow : list N                   (* final w: rows, whole files fully packed *)
}.
Definition st0 : st := {| small := []; large := []; brow := []; zrow := []; wrow := [] |}.

Definition blook (r : N) (rows : list (N * N)) : option N :=
  match find (fun e => N.eqb (fst e) r) rows with Some e => Some (snd e) | None => None end.
Definition zlook (z : N) (lg : list (N * list N)) : option (list N) :=
  match find (fun e => N.eqb (fst e) z) lg with Some e => Some (snd e) | None => None end.

(* ---- what clients see ---- *)
Inductive fres := FOk | FMissing | FError.
Definition fetch (s : st) (r : N) : fres :=
  match blook r (brow s) with
  | Some z => match zlook z (large s) with Some bl => if memN r bl then FOk else FError | None => FError end
  | None => if memN r (small s) then FOk else FMissing
  end.
(* enumerate: the merge of the loose store and the b: rows, each ref once *)
Definition visible (s : st) (r : N) : bool := memN r (small s) || match blook r (brow s) with Some _ => true | None => false end.

(* ---- the writes of a pack ---- *)
Inductive write :=
| WStoreLarge (z : N) (bl : list N)
| WCommitMeta (z : N) (bl : list N)      (* one batch: w:i, z:, and a b: row for every blob in the zip *)
| WRemoveSmall (bl : list N)
| WSetWhole (w : N).

Definition exec1 (s : st) (w : write) : st :=
  match w with
  | WStoreLarge z bl => {| small := small s; large := (z, bl) :: large s; brow := brow s; zrow := zrow s; wrow := wrow s |}
  | WCommitMeta z bl => {| small := small s; large := large s; brow := map (fun r => (r, z)) bl ++ brow s; zrow := z :: zrow s; wrow := wrow s |}
  | WRemoveSmall bl => {| small := delN bl (small s); large := large s; brow := brow s; zrow := zrow s; wrow := wrow s |}
  | WSetWhole w => {| small := small s; large := large s; brow := brow s; zrow := zrow s; wrow := w :: wrow s |}
  end.
Definition exec (s : st) (ws : list write) : st := fold_left exec1 ws s.

(* packing whole file w as the zips zs (fresh ids with the blobs each will hold) *)
Definition pack_writes (w : N) (zs : list (N * list N)) : list write :=
  flat_map (fun zb => [WStoreLarge (fst zb) (snd zb); WCommitMeta (fst zb) (snd zb); WRemoveSmall (snd zb)]) zs ++ [WSetWhole w].

(* ---- client operations ---- *)
Definition receive (s : st) (r : N) : st :=
  match blook r (brow s) with
  | Some _ => s      (* meta row exists: acknowledged without storing *)
  | None => {| small := addN r (small s); large := large s; brow := brow s; zrow := zrow s; wrow := wrow s |}
  end.

(* RemoveBlobs.  [both] = the loose copy of a packed blob is removed too (the source regenerated today: the removal of the
   loose copies is not restricted to the blobs without a meta row) *)
Definition remove (both : bool) (s : st) (r : N) : st :=
  match blook r (brow s) with
  | Some _ => {| small := if both then delN [r] (small s) else small s; large := large s;
                 brow := filter (fun e => negb (N.eqb (fst e) r)) (brow s); zrow := zrow s; wrow := wrow s |}
  | None => {| small := delN [r] (small s); large := large s; brow := brow s; zrow := zrow s; wrow := wrow s |}
  end.

(* recovery from the zips alone: every blob named by a manifest gets its row (full: the old rows are wiped first) *)
Definition reindex (full : bool) (s : st) : st :=
  {| small := small s; large := large s;
     brow := flat_map (fun zb => map (fun r => (r, fst zb)) (snd zb)) (large s) ++ (if full then [] else brow s);
     zrow := map fst (large s) ++ (if full then [] else zrow s); wrow := wrow s |}.

(* C19 — the asynchronous sync handler (pkg/server/sync.go) as a machine over observable events, and
   ListMissingDestinationBlobs (pkg/blobserver/sync.go).  Blobs are numbers; a blob's bytes are a function of its ref,
   so the destination either holds the blob intact or does not hold it. *)
From Coq Require Import List NArith Bool.
Import ListNotations.

Definition mem (b : N) (l : list N) : bool := existsb (N.eqb b) l.
Definition add (b : N) (l : list N) : list N := if mem b l then l else b :: l.
Definition del (b : N) (l : list N) : list N := filter (fun x => negb (N.eqb x b)) l.

(* stage of an in-progress copy *)
Inductive stage := Fetched | Written | QDeleted.

Record st := {
  src : list N;        (* blobs the source store holds *)
  dest : list N;       (* blobs the destination has acknowledged *)
  queue : list N;      (* rows of the persistent queue *)
  need : list N;       (* in-memory needCopy *)
  pend : list N;       (* uploads between the in-memory add and their queue.Set *)
  okd : list N;        (* uploads whose queue.Set succeeded, about to be acknowledged *)
  cop : list (N * stage);   (* copies in progress *)
  acked : list N       (* ghost: uploads acknowledged to their uploader *)
}.
Definition init : st := {| src := []; dest := []; queue := []; need := []; pend := []; okd := []; cop := []; acked := [] |}.

Inductive fetch_out := FOk | FErr | FWrongSize | FCorrupt.
Inductive recv_out := ROk | RErr | RWrongSize.

Inductive ev :=
| ESrcRecv (b : N)                (* the source accepted an upload; the receive hook adds it to needCopy *)
| EQSet (b : N) (ok : bool)       (* the hook's queue.Set *)
| EAck (b : N)                    (* the upload is acknowledged to its uploader (only after its own queue.Set succeeded) *)
| EFetch (b : N) (o : fetch_out)  (* copyBlob reads the blob from the source (size and digest verified) *)
| EDestRecv (b : N) (o : recv_out)
| EQDel (b : N) (ok : bool)       (* queue.Delete after the destination acknowledged *)
| ECopyDone (b : N)               (* dropped from needCopy *)
| ECrash.                         (* process dies; restart reloads needCopy from the queue *)

Definition stage_of (b : N) (c : list (N * stage)) : option stage :=
  match find (fun p => N.eqb (fst p) b) c with Some p => Some (snd p) | None => None end.
Definition cdel (b : N) (c : list (N * stage)) : list (N * stage) := filter (fun p => negb (N.eqb (fst p) b)) c.
Definition cset (b : N) (s : stage) (c : list (N * stage)) : list (N * stage) := (b, s) :: cdel b c.
Fixpoint del1 (b : N) (l : list N) : list N :=
  match l with [] => [] | x :: r => if N.eqb x b then r else x :: del1 b r end.

(* None = the event is not possible in this state *)
Definition upd (s : st) (src' dest' queue' need' : list N) (cop' : list (N * stage)) : st :=
  {| src := src'; dest := dest'; queue := queue'; need := need'; pend := pend s; okd := okd s; cop := cop'; acked := acked s |}.

Definition step (s : st) (e : ev) : option st :=
  match e with
  | ESrcRecv b =>
      Some {| src := add b (src s); dest := dest s; queue := queue s; need := add b (need s); pend := b :: pend s; okd := okd s;
              cop := cop s; acked := acked s |}
  | EQSet b ok =>
      if mem b (pend s) then
        (* the hook may add the blob to needCopy before or after its queue.Set (after: even when the write fails): the
           model adds it at both points, the earlier at ESrcRecv *)
        Some {| src := src s; dest := dest s; queue := if ok then add b (queue s) else queue s; need := add b (need s);
                pend := del1 b (pend s); okd := if ok then b :: okd s else okd s; cop := cop s; acked := acked s |}
      else None
  | EAck b =>
      if mem b (okd s) then
        Some {| src := src s; dest := dest s; queue := queue s; need := need s; pend := pend s; okd := del1 b (okd s); cop := cop s;
                acked := add b (acked s) |}
      else None
  | EFetch b o =>
      (* the receive hook adds the blob to needCopy some time between the source's acknowledgement and its own queue.Set:
         for an upload still in that window the addition may come late - after an earlier copy of the same blob has
         already been completed and dropped from needCopy - so a copy of a blob with an upload in flight is possible *)
      if mem b (need s) || mem b (pend s) then
        match stage_of b (cop s) with
        | Some _ => None     (* one copy of a blob at a time *)
        | None => Some (upd s (src s) (dest s) (queue s) (add b (need s)) (match o with FOk => cset b Fetched (cop s) | _ => cop s end))
        end
      else None
  | EDestRecv b o =>
      match stage_of b (cop s) with
      | Some Fetched =>
          Some (upd s (src s) (match o with ROk => add b (dest s) | _ => dest s end) (queue s) (need s)
                    (match o with ROk => cset b Written (cop s) | _ => cdel b (cop s) end))
      | _ => None
      end
  | EQDel b ok =>
      match stage_of b (cop s) with
      | Some Written => Some (upd s (src s) (dest s) (if ok then del b (queue s) else queue s) (need s) (cset b QDeleted (cop s)))
      | _ => None
      end
  | ECopyDone b =>
      match stage_of b (cop s) with
      | Some QDeleted => Some (upd s (src s) (dest s) (queue s) (del b (need s)) (cdel b (cop s)))
      | _ => None
      end
  | ECrash =>
      Some {| src := src s; dest := dest s; queue := queue s; need := queue s; pend := []; okd := []; cop := []; acked := acked s |}
  end.

Fixpoint run (s : st) (es : list ev) : option st :=
  match es with [] => Some s | e :: r => match step s e with Some s' => run s' r | None => None end end.

(* one fault-free copy of b, and a fault-free round over a batch *)
Definition copy_ok (b : N) : list ev := [EFetch b FOk; EDestRecv b ROk; EQDel b true; ECopyDone b].
Definition round_ok (batch : list N) : list ev := flat_map copy_ok batch.

(* ---- ListMissingDestinationBlobs over sorted enumerations (ref, size) ---- *)
Fixpoint missing (srcl : list (N * N)) : list (N * N) -> list (N * N) * list N :=
  fix go (dstl : list (N * N)) : list (N * N) * list N :=
    match srcl with
    | [] => ([], [])
    | (sb, ss) :: srest =>
        match dstl with
        | [] => let '(m, mm) := missing srest [] in ((sb, ss) :: m, mm)
        | (db, ds) :: drest =>
            if N.eqb sb db then let '(m, mm) := missing srest drest in (m, if N.eqb ss ds then mm else sb :: mm)
            else if N.ltb sb db then let '(m, mm) := missing srest dstl in ((sb, ss) :: m, mm)
            else go drest
        end
    end.

(* ---- the start-up of a handler with fullSyncOnStart (D52): runSync reads blobs from an enumeration source until the
   source closes its channel; a batch holds at most [cap] blobs. It returns (the blobs it copied) only if the source
   closes; the sync loop that serves later uploads starts after it has returned. ---- *)
Definition run_sync (closes : bool) (cap : nat) (items : list N) : option (list N) :=
  if closes then Some (firstn cap items) else None.
(* what reaches the destination, and whether the loop runs afterwards *)
Definition full_sync_start (closes : bool) (cap : nat) (held : list N) : list N * bool :=
  match run_sync closes cap held with
  | Some copied => (copied, true)
  | None => (firstn cap held, false)   (* the copy workers did their work; runSync itself never returns *)
  end.

(* C20 — model of pkg/blob/ref.go: text form, parsing, ordering, string tests, encodings.
   Executable definitions only (no proofs here). *)
From Coq Require Import String.
From Coq Require Import List NArith Bool.
From PK.Base Require Import Bytes Lex.
From PK.Generated Require Import Consts.
Import ListNotations.
Local Open Scope N_scope.

Inductive dkind := KSha1 | KSha224 | KSha256.

Definition kname (k : dkind) : bytes :=
  match k with KSha1 => ofs "sha1" | KSha224 => ofs "sha224" | KSha256 => ofs "sha256" end.
Definition ksize (k : dkind) : nat :=
  match k with KSha1 => 20 | KSha224 => 28 | KSha256 => 32 end%nat.
Definition kind_eqb (a b : dkind) : bool :=
  match a, b with KSha1, KSha1 | KSha224, KSha224 | KSha256, KSha256 => true | _, _ => false end.

(* otherDigest: [sum] holds the decoded bytes (the last low nibble is the padding 0 when [odd]) *)
Inductive ref := Known (k : dkind) (d : bytes) | Other (name sum : bytes) (odd : bool).

Definition rname (r : ref) : bytes := match r with Known k _ => kname k | Other n _ _ => n end.
Definition rbytes (r : ref) : bytes := match r with Known _ d => d | Other _ s _ => s end.

Definition dash : N := 45.

(* Ref.appendString / String *)
Definition to_string (r : ref) : bytes :=
  let full := rname r ++ [dash] ++ hex (rbytes r) in
  match r with
  | Other _ _ true => removelast full
  | _ => full
  end.

(* hexVal *)
Definition hexval (c : N) : option N :=
  if (48 <=? c) && (c <=? 57) then Some (c - 48)
  else if (97 <=? c) && (c <=? 102) then Some (c - 87) else None.

(* the "for i := 0; i < len(hex); i += 2" decoding loops; None = bad *)
Fixpoint unhex_pairs (h : bytes) : option bytes :=
  match h with
  | [] => Some []
  | a :: b :: r =>
      match hexval a, hexval b, unhex_pairs r with
      | Some x, Some y, Some t => Some ((16 * x + y) :: t)
      | _, _, _ => None
      end
  | [_] => None
  end.

(* strings.Index(s, "-") split *)
Fixpoint split_dash (s : bytes) : option (bytes * bytes) :=
  match s with
  | [] => None
  | c :: r => if c =? dash then Some ([], r)
              else match split_dash r with Some (n, h) => Some (c :: n, h) | None => None end
  end.

Definition name_char_ok (c : N) : bool :=
  ((97 <=? c) && (c <=? 122)) || ((48 <=? c) && (c <=? 57)).
Definition valid_digest_name (n : bytes) : bool :=
  match n with [] => false | _ => forallb name_char_ok n end.

Definition kind_of_name (n : bytes) : option dkind :=
  if beqb n (kname KSha1) then Some KSha1
  else if beqb n (kname KSha224) then Some KSha224
  else if beqb n (kname KSha256) then Some KSha256 else None.

Definition is_test_name (n : bytes) : bool := existsb (beqb n) (map ofs test_ref_types).

(* parseUnknown *)
Definition parse_unknown (name hx : bytes) : option ref :=
  if negb (valid_digest_name name) then None else
  let odd := Nat.odd (length hx) in
  let hx' := if odd then hx ++ [48] else hx in
  if (Nat.ltb (length hx') 2) || (Nat.ltb (2 * N.to_nat max_other_digest_len) (length hx')) then None else
  match unhex_pairs hx' with
  | Some sum => Some (Other name sum odd)
  | None => None
  end.

(* parse(s, allowAll); ParseBytes = parse with allowAll = true *)
Definition parse (allow_all : bool) (s : bytes) : option ref :=
  match split_dash s with
  | None => None
  | Some (name, hx) =>
      match kind_of_name name with
      | None => if allow_all || is_test_name name then parse_unknown name hx else None
      | Some k =>
          if negb (Nat.eqb (length hx) (2 * ksize k)) then None else
          match unhex_pairs hx with Some d => Some (Known k d) | None => None end
      end
  end.

(* Ref.Less on valid refs *)
Definition less (r o : ref) : bool :=
  if negb (beqb (rname r) (rname o)) then ltb (rname r) (rname o)
  else ltb (rbytes r) (rbytes o).

(* the "for i, b := range d" comparison loop of equalString; the Go code indexes s[i*2], s[i*2+1]
   (in range thanks to the length test made before) *)
Fixpoint eq_loop (d s : bytes) (odd_last : bool) : bool :=
  match d with
  | [] => true
  | b :: r =>
      match s with
      | c1 :: s1 =>
          if negb (c1 =? hexdigit (b / 16)) then false else
          match r, odd_last with
          | [], true => true
          | _, _ =>
              match s1 with
              | c2 :: s2 => if negb (c2 =? hexdigit (b mod 16)) then false else eq_loop r s2 odd_last
              | [] => false
              end
          end
      | [] => false
      end
  end.

Definition str_len (r : ref) : nat :=
  let n := (length (rname r) + 1 + 2 * length (rbytes r))%nat in
  match r with Other _ _ true => (n - 1)%nat | _ => n end.

Definition is_odd (r : ref) : bool := match r with Other _ _ o => o | _ => false end.

(* None models a run-time panic (index out of range) *)
Definition equal_string (r : ref) (s : bytes) : option bool :=
  if negb (Nat.eqb (length s) (str_len r)) then Some false else
  match r with
  | Known k d =>
      if negb (is_prefix (kname k ++ [dash]) s) then Some false
      else Some (eq_loop d (skipn (length (kname k) + 1) s) false)
  | Other n sum odd =>
      if negb (is_prefix n s) then Some false else
      match nth_error s (length n) with
      | None => None
      | Some c => if negb (c =? dash) then Some false
                  else Some (eq_loop sum (skipn (length n + 1) s) odd)
      end
  end.

(* the prefix loop of hasPrefix *)
Fixpoint pre_loop (d s : bytes) (odd_last : bool) : bool :=
  match d with
  | [] => true
  | b :: r =>
      match s with
      | [] => true
      | c1 :: s1 =>
          if negb (c1 =? hexdigit (b / 16)) then false else
          match s1 with
          | [] => true
          | c2 :: s2 =>
              match r, odd_last with
              | [], true => true
              | _, _ => if negb (c2 =? hexdigit (b mod 16)) then false else pre_loop r s2 odd_last
              end
          end
      end
  end.

Definition has_prefix (r : ref) (s : bytes) : option bool :=
  match r with
  | Known k d =>
      if Nat.ltb (str_len r) (length s) then Some false else
      if Nat.eqb (length s) (str_len r) then equal_string r s else
      if negb (is_prefix (kname k ++ [dash]) s) then Some false else
      let t := skipn (length (kname k) + 1) s in
      match t with [] => Some false | _ => Some (pre_loop d t false) end
  | Other n sum odd =>
      if Nat.ltb (str_len r) (length s) then Some false else
      if Nat.leb (length s) (length n) then Some false else
      if negb (is_prefix n s) then Some false else
      match nth_error s (length n) with
      | None => None  (* s[len(d.name)] out of range: run-time panic (excluded by the length test above) *)
      | Some c =>
          if negb (c =? dash) then Some false else
          if Nat.eqb (length s) (str_len r) then equal_string r s else
          let t := skipn (length n + 1) s in
          match t with [] => Some false | _ => Some (pre_loop sum t odd) end
      end
  end.

(* JSON: MarshalJSON of a valid ref, UnmarshalJSON into a zero ref *)
Definition quote : N := 34.
Definition marshal_json (r : ref) : bytes := [quote] ++ to_string r ++ [quote].
Inductive junm := JZero | JRef (r : ref) | JErr.
Definition unmarshal_json (d : bytes) : junm :=
  match d with
  | [] => JZero
  | _ =>
    if beqb d (ofs "null") then JZero else
    match d with
    | q :: rest =>
        if Nat.ltb (length d) 2 || negb (q =? quote) || negb (last d 0 =? quote) then JErr else
        match parse true (removelast rest) with Some r => JRef r | None => JErr end
    | [] => JZero
    end
  end.

(* binary *)
Definition marshal_binary (r : ref) : bytes := rname r ++ [dash] ++ rbytes r.
Definition unmarshal_binary (data : bytes) : option ref :=
  match split_dash data with
  | None => None
  | Some (name, buf) =>
      match name with [] => None | _ =>
      match kind_of_name name with
      | Some k => if Nat.eqb (length buf) (ksize k) then Some (Known k buf) else None
      | None => parse_unknown name (hex buf)
      end end
  end.

(* StringMinusOne: last byte decremented *)
Definition string_minus_one (r : ref) : bytes :=
  let s := to_string r in removelast s ++ [last s 0 - 1].

(* well-formed refs = what the parsers can build *)
Definition all_bytes (l : bytes) : bool := forallb (fun x => x <? 256) l.
Definition wf_ref (r : ref) : bool :=
  match r with
  | Known k d => Nat.eqb (length d) (ksize k) && all_bytes d
  | Other n sum odd =>
      valid_digest_name n && negb (match kind_of_name n with Some _ => true | None => false end)
      && Nat.leb 1 (length sum) && Nat.leb (length sum) (N.to_nat max_other_digest_len) && all_bytes sum
      && (if odd then (last sum 0 mod 16 =? 0) else true)
  end.
Definition supported (r : ref) : bool := match r with Known _ _ => true | _ => false end.

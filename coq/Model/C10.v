(* C10 — sorted key/value stores.  SPEC: a byte-ordered map with in-order batches and the size guard.
   MODEL: pkg/sorted/buffer (two layers, auto-flush, split batches, two-iterator merge automaton). *)
From Coq Require Import List NArith ZArith Bool.
From PK.Base Require Import Bytes Lex SortedMap.
From PK.Generated Require Import Consts.
Import ListNotations.

Inductive mutation := MSet (k v : bytes) | MDel (k : bytes).
Inductive op :=
| OGet (k : bytes) | OSet (k v : bytes) | ODel (k : bytes) | OBatch (ms : list mutation)
| OFind (s e : bytes) | OFlush | OReopen.
Inductive out := RVal (o : option bytes) | RUnit | RList (l : smap).

(* sorted.CheckSizes *)
Definition oversize (k v : bytes) : bool :=
  (N.ltb max_key_size (N.of_nat (length k))) || (N.ltb max_value_size (N.of_nat (length v))).

(* ---------- SPEC ---------- *)
Definition spec_mut (m : smap) (x : mutation) : smap :=
  match x with
  | MSet k v => if oversize k v then m else insert k v m
  | MDel k => remove k m
  end.

Definition spec_step (m : smap) (o : op) : smap * out :=
  match o with
  | OGet k => (m, RVal (lookup k m))
  | OSet k v => (spec_mut m (MSet k v), RUnit)
  | ODel k => (remove k m, RUnit)
  | OBatch ms => (fold_left spec_mut ms m, RUnit)
  | OFind s e => (m, RList (range s e m))
  | OFlush => (m, RUnit)
  | OReopen => (m, RUnit)
  end.

Fixpoint run_spec (m : smap) (ops : list op) : list out :=
  match ops with
  | [] => []
  | o :: r => let '(m', x) := spec_step m o in x :: run_spec m' r
  end.

(* ---------- MODEL of buffer.KeyValue ---------- *)
Record bstate := { buf : smap; back : smap; buffered : Z; maxb : Z }.

Definition set_bufs (s : bstate) (b k : smap) : bstate :=
  {| buf := b; back := k; buffered := buffered s; maxb := maxb s |}.

(* Flush: every buffered pair is Set in one batch on the backing store, then deleted from the buffer *)
Definition flush (s : bstate) : bstate :=
  match buf s with
  | [] => s   (* commit = false: nothing happens, the counter is not reset *)
  | _ => {| buf := fold_left (fun m p => remove (fst p) m) (buf s) (buf s);
            back := fold_left (fun m p => insert (fst p) (snd p) m) (buf s) (back s);
            buffered := 0; maxb := maxb s |}
  end.

(* the buffer-side and backing-side batches built by CommitBatch *)
Definition buf_mut (m : smap) (x : mutation) : smap :=
  match x with
  | MSet k v => if oversize k v then m else insert k v m
  | MDel k => remove k m
  end.
Definition back_mut (m : smap) (x : mutation) : smap :=
  match x with MSet _ _ => m | MDel k => remove k m end.

(* --- iterator --- *)
Record sub := { s_rest : smap; s_key : bytes; s_val : bytes; s_eof : bool }.
Definition sub_init (l : smap) : sub := {| s_rest := l; s_key := []; s_val := []; s_eof := false |}.
Definition sub_next (s : sub) : bool * sub :=
  match s_rest s with
  | [] => (false, {| s_rest := []; s_key := s_key s; s_val := s_val s; s_eof := true |})
  | (k, v) :: r => (true, {| s_rest := r; s_key := k; s_val := v; s_eof := s_eof s |})
  end.
Record iter := { i_buf : sub; i_back : sub }.
Definition is_empty (b : bytes) : bool := match b with [] => true | _ => false end.

(* iter.current *)
Definition current (it : iter) : sub :=
  if s_eof (i_back it) then i_buf it
  else if s_eof (i_buf it) then i_back it
  else if leb (s_key (i_buf it)) (s_key (i_back it)) then i_buf it else i_back it.

(* iter.Next, statement by statement *)
Definition iter_next (it : iter) : bool * iter :=
  let b0 := i_buf it in
  let k0 := i_back it in
  let '(st1, b1) := if is_empty (s_key b0) && negb (s_eof b0) then sub_next b0 else (false, b0) in
  let '(st2, k1) := if is_empty (s_key k0) && negb (s_eof k0)
                    then (let '(r, x) := sub_next k0 in (r || st1, x)) else (st1, k0) in
  if st2 then (true, {| i_buf := b1; i_back := k1 |}) else
  if s_eof b1 && s_eof k1 then (false, {| i_buf := b1; i_back := k1 |}) else
  if s_eof b1 then (let '(r, x) := sub_next k1 in (r, {| i_buf := b1; i_back := x |})) else
  if s_eof k1 then (let '(r, x) := sub_next b1 in (r, {| i_buf := x; i_back := k1 |})) else
  if ltb (s_key b1) (s_key k1) then (true, {| i_buf := snd (sub_next b1); i_back := k1 |})
  else if ltb (s_key k1) (s_key b1) then (true, {| i_buf := b1; i_back := snd (sub_next k1) |})
  else let '(n1, x1) := sub_next b1 in let '(n2, x2) := sub_next k1 in
       (n1 || n2, {| i_buf := x1; i_back := x2 |}).

(* for it.Next() { emit it.Key(), it.Value() } *)
Fixpoint collect (fuel : nat) (it : iter) : smap :=
  match fuel with
  | O => []
  | S f => let '(ok, it') := iter_next it in
           if ok then (s_key (current it'), s_val (current it')) :: collect f it' else []
  end.

Definition bfind (s : bstate) (st e : bytes) : smap :=
  let lb := range st e (buf s) in
  let lk := range st e (back s) in
  collect (length lb + length lk + 1) {| i_buf := sub_init lb; i_back := sub_init lk |}.

Definition bget (s : bstate) (k : bytes) : option bytes :=
  match lookup k (buf s) with Some v => Some v | None => lookup k (back s) end.

Definition bstep (s : bstate) (o : op) : bstate * out :=
  match o with
  | OGet k => (s, RVal (bget s k))
  | OSet k v =>
      if oversize k v then (s, RUnit) else
      let n := (buffered s + Z.of_nat (length k) + Z.of_nat (length v))%Z in
      let s1 := {| buf := insert k v (buf s); back := back s; buffered := n; maxb := maxb s |} in
      ((if Z.ltb (maxb s) n then flush s1 else s1), RUnit)
  | ODel k => (set_bufs s (remove k (buf s)) (remove k (back s)), RUnit)
  | OBatch ms => (set_bufs s (fold_left buf_mut ms (buf s)) (fold_left back_mut ms (back s)), RUnit)
  | OFind st e => (s, RList (bfind s st e))
  | OFlush => (flush s, RUnit)
  | OReopen => (flush s, RUnit)   (* Close = Flush + back.Close *)
  end.

(* run, also exposing both layers after every step (the harness dumps them too) *)
Fixpoint run_buffer (s : bstate) (ops : list op) : list (out * smap * smap) :=
  match ops with
  | [] => []
  | o :: r => let '(s', x) := bstep s o in (x, buf s', back s') :: run_buffer s' r
  end.

Definition binit (mx : Z) : bstate := {| buf := []; back := []; buffered := 0; maxb := mx |}.
Definition abs (s : bstate) : smap := overlay (buf s) (back s).


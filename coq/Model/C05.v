(* C05 — the indexer's dependency bookkeeping (pkg/index/receive.go): which blobs end up fully indexed, partially
   indexed (meta/have rows only, waiting for an index row of another blob) or pending (nothing committed, waiting for a
   blob to become fetchable), for any order of arrival.
   A blob is abstracted to: the blobs its indexing has to FETCH, in fetch order (signer key, file chunks / bytes
   sub-trees, static sets), and optionally the blob whose META ROW it needs (a delete claim's target). *)
From Coq Require Import List NArith Bool.
Import ListNotations.

Record blob := { b_id : N; b_fdeps : list N; b_idep : option N }.
Inductive status := Full | Partial | Pending (need : N).

Record ist := {
  fetchable : list N;                (* in the blob source *)
  committed : list (N * bool);       (* has a meta row; true = "have ...|indexed" *)
  needs : list (N * N)               (* needer, missing *)
}.
Definition ist0 : ist := {| fetchable := []; committed := []; needs := [] |}.

Definition memN (x : N) (l : list N) : bool := existsb (N.eqb x) l.
Definition has_meta (s : ist) (x : N) : bool := existsb (fun p => N.eqb (fst p) x) (committed s).
Definition is_full (s : ist) (x : N) : bool := existsb (fun p => N.eqb (fst p) x && snd p) (committed s).
Definition first_missing (s : ist) (deps : list N) : option N := find (fun d => negb (memN d (fetchable s))) deps.

Definition set_commit (s : ist) (x : N) (full : bool) : ist :=
  {| fetchable := fetchable s;
     committed := (x, full) :: filter (fun p => negb (N.eqb (fst p) x)) (committed s);
     needs := needs s |}.
Definition set_need (s : ist) (x m : N) : ist :=
  {| fetchable := fetchable s; committed := committed s;
     needs := (x, m) :: filter (fun p => negb (N.eqb (fst p) x)) (needs s) |}.
Definition clear_need (s : ist) (x : N) : ist :=
  {| fetchable := fetchable s; committed := committed s; needs := filter (fun p => negb (N.eqb (fst p) x)) (needs s) |}.

Section World.
  Variable world : list blob.
  Definition lookup_blob (x : N) : option blob := find (fun b => N.eqb (b_id b) x) world.

  (* ReceiveBlob for a fetchable blob, followed by the re-indexing of the blobs that were waiting for it *)
  Fixpoint receive (fuel : nat) (s : ist) (x : N) : ist :=
    match fuel with
    | O => s
    | S f =>
        match lookup_blob x with
        | None => s
        | Some b =>
            if is_full s x then s else
            let s1 :=
              match first_missing s (b_fdeps b) with
              | Some m => set_need s x m                                   (* nothing committed *)
              | None =>
                  match b_idep b with
                  | Some t => if has_meta s t then set_commit (clear_need s x) x true
                              else set_need (set_commit s x false) x t
                  | None => set_commit (clear_need s x) x true
                  end
              end in
            (* noteBlobIndexedLocked(x): x has arrived; every blob waiting for x is re-indexed *)
            let wake := map fst (filter (fun p => N.eqb (snd p) x) (needs s1)) in
            fold_left (fun st n => receive f st n) wake s1
        end
    end.

  (* the harness stores the blob in the source, then feeds it to the index *)
  Definition deliver (fuel : nat) (s : ist) (x : N) : ist :=
    receive fuel {| fetchable := if memN x (fetchable s) then fetchable s else x :: fetchable s;
                    committed := committed s; needs := needs s |} x.

  Definition run (fuel : nat) (order : list N) : ist := fold_left (deliver fuel) order ist0.

  Definition status_of (s : ist) (x : N) : option status :=
    if is_full s x then Some Full
    else if has_meta s x then Some Partial
    else match find (fun p => N.eqb (fst p) x) (needs s) with Some p => Some (Pending (snd p)) | None => None end.

  (* SPEC: what the index must say about x once exactly the blobs of [present] have arrived, in any order *)
  Definition fdeps_ok (present : list N) (b : blob) : bool := forallb (fun d => memN d present) (b_fdeps b).
  Definition expected (present : list N) (x : N) : option status :=
    if negb (memN x present) then None else
    match lookup_blob x with
    | None => None
    | Some b =>
        match find (fun d => negb (memN d present)) (b_fdeps b) with
        | Some m => Some (Pending m)
        | None =>
            match b_idep b with
            | None => Some Full
            | Some t =>
                if memN t present && match lookup_blob t with Some tb => fdeps_ok present tb | None => false end
                then Some Full else Some Partial
            end
        end
    end.
End World.

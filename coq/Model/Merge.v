(* Model of blobserver.mergedEnumerate (pkg/blobserver/mergedenum.go): k sorted sub-enumerations, each already
   cut to [limit] entries after the cursor by its source, merge-joined with duplicate suppression (tooLow). *)
From Coq Require Import List NArith Bool.
From PK.Base Require Import Bytes Lex SortedMap.
Import ListNotations.

(* tooLow: br == lastSent || br.Less(lastSent) *)
Definition too_low (last : option bytes) (k : bytes) : bool :=
  match last with None => false | Some x => leb k x end.

(* for !peeker.Closed() && tooLow(peek) { Take } *)
Fixpoint drop_low (last : option bytes) (l : smap) : smap :=
  match l with
  | [] => []
  | (k, v) :: r => if too_low last k then drop_low last r else l
  end.

(* the scan over the peekers: the lowest head, the leftmost one on ties *)
Fixpoint pick (rs : list smap) : option kv :=
  match rs with
  | [] => None
  | r :: rest =>
      match r, pick rest with
      | [], p => p
      | h :: _, None => Some h
      | h :: _, Some p => if ltb (fst p) (fst h) then Some p else Some h
      end
  end.

(* for nSent < limit { ... } *)
Fixpoint menum (n : nat) (rs : list smap) (last : option bytes) : smap :=
  match n with
  | O => []
  | S n' =>
      let rs' := map (drop_low last) rs in
      match pick rs' with
      | None => []
      | Some p => p :: menum n' rs' (Some (fst p))
      end
  end.

Definition merged_enumerate (srcs : list smap) (cursor : bytes) (limit : nat) : smap :=
  menum limit (map (fun s => firstn limit (after cursor s)) srcs) None.

(* SPEC: the sorted union, leftmost source winning on a common key *)
Definition union (rs : list smap) : smap := fold_right merge [] rs.

(* C14 — the judge of concurrent histories.  A store is a set of refs; the calls on one ref (receive, remove, fetch/stat)
   form an object of their own — a present/absent register — and linearizability is local, so a history without
   enumerations is linearizable iff each ref's sub-history is.  Times are ticks of one atomic counter taken by the harness
   just before each call and just after its return. *)
From Coq Require Import List NArith Bool Arith.
Import ListNotations.

Inductive kop := KReceive | KRemove | KRead.
Record call := { c_inv : nat; c_ret : nat; c_op : kop; c_res : bool (* reads: was the blob seen? *) }.

(* the sequential behaviour of one ref *)
Definition ok (present : bool) (c : call) : bool := match c_op c with KRead => Bool.eqb (c_res c) present | _ => true end.
Definition next (present : bool) (c : call) : bool := match c_op c with KReceive => true | KRemove => false | KRead => present end.

(* c may be linearized first among itself and [rest]: nobody in rest returned before c was invoked *)
Definition minimal (c : call) (rest : list call) : bool := forallb (fun d => negb (Nat.ltb (c_ret d) (c_inv c))) rest.

Fixpoint remove_nth {A} (n : nat) (l : list A) : list A :=
  match l, n with [], _ => [] | _ :: r, O => r | x :: r, S m => x :: remove_nth m r end.

(* Wing-Gong search: pick any minimal call whose answer fits, continue with the rest *)
Fixpoint search (fuel : nat) (present : bool) (l : list call) : bool :=
  match l with
  | [] => true
  | _ =>
      match fuel with
      | O => false
      | S f =>
          existsb (fun i => match nth_error l i with
                            | Some c => minimal c (remove_nth i l) && ok present c && search f (next present c) (remove_nth i l)
                            | None => false end) (seq 0 (length l))
      end
  end.

Definition lin_check (initially_present : bool) (l : list call) : bool := search (length l) initially_present l.

(* a sequential witness *)
Fixpoint valid_seq (present : bool) (s : list call) : bool :=
  match s with [] => true | c :: r => ok present c && valid_seq (next present c) r end.
(* real-time order is respected: nobody later in the sequence had returned before an earlier one was invoked *)
Fixpoint respects_rt (s : list call) : bool :=
  match s with [] => true | c :: r => minimal c r && respects_rt r end.

(* C14 — the judge of concurrent histories.  A store is a set of refs; the calls on one ref (receive, remove, fetch/stat)
   form an object of their own — a present/absent register — and linearizability is local, so a history without
   enumerations is linearizable iff each ref's sub-history is.  Times are ticks of one atomic counter taken by the harness
   just before each call and just after its return. *)
From Coq Require Import List NArith Bool Arith.
Import ListNotations.

Inductive kop := KReceive | KRemove | KRead.
Record call := { c_inv : nat; c_ret : nat; c_op : kop; c_res : bool (* reads: was the blob seen? *) }.

(* the sequential behaviour of one ref *)
Definition ok (present : bool) (c : call) : bool := match c_op c with KRead => Bool.eqb (c_res c) present | _ => true end.
Definition next (present : bool) (c : call) : bool := match c_op c with KReceive => true | KRemove => false | KRead => present end.

(* c may be linearized first among itself and [rest]: nobody in rest returned before c was invoked *)
Definition minimal (c : call) (rest : list call) : bool := forallb (fun d => negb (Nat.ltb (c_ret d) (c_inv c))) rest.

Fixpoint remove_nth {A} (n : nat) (l : list A) : list A :=
  match l, n with [], _ => [] | _ :: r, O => r | x :: r, S m => x :: remove_nth m r end.

(* Wing-Gong search: pick any minimal call whose answer fits, continue with the rest *)
Fixpoint search (fuel : nat) (present : bool) (l : list call) : bool :=
  match l with
  | [] => true
  | _ =>
      match fuel with
      | O => false
      | S f =>
          existsb (fun i => match nth_error l i with
                            | Some c => minimal c (remove_nth i l) && ok present c && search f (next present c) (remove_nth i l)
                            | None => false end) (seq 0 (length l))
      end
  end.

Definition lin_check (initially_present : bool) (l : list call) : bool := search (length l) initially_present l.

(* a sequential witness *)
Fixpoint valid_seq (present : bool) (s : list call) : bool :=
  match s with [] => true | c :: r => ok present c && valid_seq (next present c) r end.
(* real-time order is respected: nobody later in the sequence had returned before an earlier one was invoked *)
Fixpoint respects_rt (s : list call) : bool :=
  match s with [] => true | c :: r => minimal c r && respects_rt r end.

(* ---- checking a witness (polynomial): the harness's own search hands over the order it found ---- *)
Definition kop_eq_dec (a b : kop) : {a = b} + {a <> b}. Proof. decide equality. Defined.
Definition call_eq_dec (a b : call) : {a = b} + {a <> b}.
Proof. decide equality; [apply bool_dec|apply kop_eq_dec|apply Nat.eq_dec|apply Nat.eq_dec]. Defined.
Definition same_calls (s l : list call) : bool :=
  forallb (fun c => Nat.eqb (count_occ call_eq_dec s c) (count_occ call_eq_dec l c)) (s ++ l).
Definition check_witness (present : bool) (l s : list call) : bool := same_calls s l && valid_seq present s && respects_rt s.

(* ---- the whole store: a set of refs; an enumeration reads every ref at once ---- *)
Inductive gop := GReceive (k : nat) | GRemove (k : nat) | GRead (k : nat) (seen : bool) | GEnum (listed : list nat).
Record gcall := { g_inv : nat; g_ret : nat; g_op : gop }.
Definition gstate := nat -> bool.
Definition g_ok (st : gstate) (c : gcall) : Prop :=
  match g_op c with
  | GRead k seen => seen = st k
  | GEnum listed => forall k, existsb (Nat.eqb k) listed = st k
  | _ => True
  end.
Definition g_next (st : gstate) (c : gcall) : gstate :=
  match g_op c with
  | GReceive k => fun x => if Nat.eqb x k then true else st x
  | GRemove k => fun x => if Nat.eqb x k then false else st x
  | _ => st
  end.
Fixpoint g_valid (st : gstate) (s : list gcall) : Prop :=
  match s with [] => True | c :: r => g_ok st c /\ g_valid (g_next st c) r end.
Definition g_minimal (c : gcall) (rest : list gcall) : bool := forallb (fun d => negb (Nat.ltb (g_ret d) (g_inv c))) rest.
Fixpoint g_respects_rt (s : list gcall) : bool := match s with [] => true | c :: r => g_minimal c r && g_respects_rt r end.

(* what the calls say about one ref k *)
Definition proj (k : nat) (c : gcall) : option call :=
  let mk o r := Some {| c_inv := g_inv c; c_ret := g_ret c; c_op := o; c_res := r |} in
  match g_op c with
  | GReceive k' => if Nat.eqb k k' then mk KReceive true else None
  | GRemove k' => if Nat.eqb k k' then mk KRemove true else None
  | GRead k' seen => if Nat.eqb k k' then mk KRead seen else None
  | GEnum listed => mk KRead (existsb (Nat.eqb k) listed)
  end.
Fixpoint project (k : nat) (s : list gcall) : list call :=
  match s with [] => [] | c :: r => match proj k c with Some x => x :: project k r | None => project k r end end.

(* ---- overlay's writers on one blob the lower layer does not hold (D50): a removal is "take it out of the upper layer,
   then mark it in the deleted index", an upload is "store it in the upper layer, then clear the mark" ---- *)
Record ov := { ov_up : bool; ov_del : bool }.
Inductive ostep := RecvUpper | RecvClear | RemUpper | RemMark.
Definition ov_step (s : ov) (t : ostep) : ov :=
  match t with
  | RecvUpper => {| ov_up := true; ov_del := ov_del s |}
  | RecvClear => {| ov_up := ov_up s; ov_del := false |}
  | RemUpper => {| ov_up := false; ov_del := ov_del s |}
  | RemMark => {| ov_up := ov_up s; ov_del := true |}
  end.
Definition ov_present (s : ov) : bool := ov_up s && negb (ov_del s).
Inductive oop := OvRecv | OvRem.
Definition ov_atomic (o : oop) : list ostep := match o with OvRecv => [RecvUpper; RecvClear] | OvRem => [RemUpper; RemMark] end.
Definition ov_run (s : ov) (ts : list ostep) : ov := fold_left ov_step ts s.

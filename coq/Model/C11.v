(* C11 — the encrypting store (pkg/blobserver/encrypt).  Ciphertexts are modelled symbolically (an ideal authenticated
   encryption): the only things that decrypt are ciphertexts the store itself produced; an adversary editing the wrapped
   stores can substitute junk or another stored ciphertext.  A stored object is named by its (collision-free) hash, so a
   name is identified with the ciphertext it was computed from.  Whether the ciphertext bytes reveal anything is the
   cryptographic assumption and is not modelled. *)
From Coq Require Import List NArith Bool.
Import ListNotations.

Inductive ct :=
| CData (p : N) (nonce : N)                       (* version byte ++ age(plaintext of blob p) *)
| CMeta (lines : list (N * ct)) (nonce : N)       (* version byte ++ age(header ++ lines plain/size/enc) *)
| CJunk (j : N).                                  (* anything not produced by the store *)

Fixpoint ct_eqb (a b : ct) : bool :=
  match a, b with
  | CData p n, CData q m => N.eqb p q && N.eqb n m
  | CMeta l n, CMeta k m =>
      N.eqb n m &&
      (fix go (l k : list (N * ct)) : bool :=
         match l, k with
         | [], [] => true
         | (p, c) :: l', (q, d) :: k' => N.eqb p q && ct_eqb c d && go l' k'
         | _, _ => false
         end) l k
  | CJunk i, CJunk j => N.eqb i j
  | _, _ => false
  end.

(* a wrapped store: name (the ciphertext the name is the hash of) and what is stored under it now *)
Definition store := list (ct * ct).
Definition slookup (name : ct) (s : store) : option ct :=
  match find (fun e => ct_eqb (fst e) name) s with Some e => Some (snd e) | None => None end.
Definition sput (c : ct) (s : store) : store := if existsb (fun e => ct_eqb (fst e) c) s then s else s ++ [(c, c)].
Definition sremove (names : list ct) (s : store) : store := filter (fun e => negb (existsb (ct_eqb (fst e)) names)) s.

Definition ilookup (p : N) (ix : list (N * ct)) : option ct :=
  match find (fun e => N.eqb (fst e) p) ix with Some e => Some (snd e) | None => None end.
Definition iset (p : N) (c : ct) (ix : list (N * ct)) : list (N * ct) := (p, c) :: filter (fun e => negb (N.eqb (fst e) p)) ix.

Record mb := { mb_name : ct; mb_plains : list N }.
Record job := { j_plains : list N; j_delete : list ct }.

Record st := {
  blobs : store; meta : store;
  index : list (N * ct);
  heap : list mb;             (* smallMeta *)
  jobs : list job;            (* makePackedMetaBlob goroutines that have not uploaded yet *)
  deletes : list (list ct);   (* ... that have uploaded and not yet removed the small meta blobs *)
  nonce : N
}.

Section Params.
  Variable small_limit : nat.   (* SmallMetaCountLimit *)
  Variable full_size : nat.     (* FullMetaBlobSize *)

  (* heap.Pop order: fewest plains first *)
  Fixpoint insert_mb (b : mb) (l : list mb) : list mb :=
    match l with
    | [] => [b]
    | x :: r => if Nat.leb (length (mb_plains b)) (length (mb_plains x)) then b :: l else x :: insert_mb b r
    end.

  (* the grouping loop of recordMeta once the heap is over the limit *)
  Fixpoint group (popped : list mb) (plains : list N) (del : list ct) : list job * list mb :=
    match popped with
    | [] =>
        match del with
        | [] => ([], [])
        | [one] => ([], [{| mb_name := one; mb_plains := plains |}])
        | _ => ([{| j_plains := plains; j_delete := del |}], [])
        end
    | m :: r =>
        let plains' := plains ++ mb_plains m in
        let del' := del ++ [mb_name m] in
        if Nat.ltb full_size (length plains') then
          let '(js, back) := group r [] [] in ({| j_plains := plains'; j_delete := del' |} :: js, back)
        else group r plains' del'
    end.

  Definition record_meta (b : mb) (s : st) : st :=
    if Nat.ltb full_size (length (mb_plains b)) then s else
    let h := insert_mb b (heap s) in
    if Nat.ltb small_limit (length h) then
      let '(js, back) := group h [] [] in
      {| blobs := blobs s; meta := meta s; index := index s; heap := back; jobs := jobs s ++ js; deletes := deletes s; nonce := nonce s |}
    else {| blobs := blobs s; meta := meta s; index := index s; heap := h; jobs := jobs s; deletes := deletes s; nonce := nonce s |}.

  Inductive op :=
  | OReceive (p : N)
  | OReceiveFail (at_meta : bool) (p : N)   (* a receive that fails: the write of the ciphertext fails (nothing happens), or
                                              the write of its meta blob fails (an orphan ciphertext stays behind) *)
  | OJobUpload            (* the oldest packing goroutine builds and uploads its packed meta blob *)
  | OJobAbort             (* ... or gives up (it ran before the index entry of the newest blob was written; upload error) *)
  | OJobDelete (ok : bool)  (* ... and removes the small ones (RemoveBlobs may fail: logged, ignored) *)
  | ORestart              (* process restart with an empty meta index: readAllMetaBlobs *)
  | OTamperBlob (name : ct) (c : ct)    (* the adversary replaces what is stored under a name of 'blobs' *)
  | OTamperMeta (name : ct) (c : ct).

  Definition with_nonce (s : st) : st :=
    {| blobs := blobs s; meta := meta s; index := index s; heap := heap s; jobs := jobs s; deletes := deletes s; nonce := nonce s + 1 |}.

  Definition receive (p : N) (s : st) : st :=
    match ilookup p (index s) with
    | Some _ => s                                   (* duplicate *)
    | None =>
        let c := CData p (nonce s) in
        let m := CMeta [(p, c)] (nonce s + 1) in
        let s1 := {| blobs := sput c (blobs s); meta := sput m (meta s); index := index s; heap := heap s; jobs := jobs s;
                     deletes := deletes s; nonce := nonce s + 2 |} in
        let s2 := record_meta {| mb_name := m; mb_plains := [p] |} s1 in
        {| blobs := blobs s2; meta := meta s2; index := iset p c (index s2); heap := heap s2; jobs := jobs s2; deletes := deletes s2; nonce := nonce s2 |}
    end.

  (* lines of a packed meta blob: each plain with its current index entry; None if one is missing (the goroutine gives up) *)
  Fixpoint lines_of (ps : list N) (ix : list (N * ct)) : option (list (N * ct)) :=
    match ps with
    | [] => Some []
    | p :: r => match ilookup p ix, lines_of r ix with Some c, Some l => Some ((p, c) :: l) | _, _ => None end
    end.

  Definition job_upload (s : st) : st :=
    match jobs s with
    | [] => s
    | j :: rest =>
        match lines_of (j_plains j) (index s) with
        | None => {| blobs := blobs s; meta := meta s; index := index s; heap := heap s; jobs := rest; deletes := deletes s; nonce := nonce s |}
        | Some ls =>
            let m := CMeta ls (nonce s) in
            let s1 := {| blobs := blobs s; meta := sput m (meta s); index := index s; heap := heap s; jobs := rest;
                         deletes := deletes s ++ [j_delete j]; nonce := nonce s + 1 |} in
            if Nat.ltb (length (j_plains j)) full_size then record_meta {| mb_name := m; mb_plains := j_plains j |} s1 else s1
        end
    end.

  Definition job_delete (ok : bool) (s : st) : st :=
    match deletes s with
    | [] => s
    | d :: rest =>
        {| blobs := blobs s; meta := if ok then sremove d (meta s) else meta s; index := index s; heap := heap s; jobs := jobs s;
           deletes := rest; nonce := nonce s |}
    end.

  (* start-up: every meta blob must decrypt (only genuine meta ciphertexts do); its lines go to the index *)
  Definition process_meta (e : ct * ct) (acc : option st) : option st :=
    match acc with
    | None => None
    | Some s =>
        match snd e with
        | CMeta ls _ =>
            let ix := fold_left (fun ix l => iset (fst l) (snd l) ix) ls (index s) in
            Some (record_meta {| mb_name := fst e; mb_plains := map fst ls |}
                    {| blobs := blobs s; meta := meta s; index := ix; heap := heap s; jobs := jobs s; deletes := deletes s; nonce := nonce s |})
        | _ => None
        end
    end.

  (* the meta blobs are fetched by a pool of goroutines: they are processed in some order [ms] of the meta store *)
  Definition restart_in (ms : store) (s : st) : option st :=
    fold_left (fun acc e => process_meta e acc) ms
      (Some {| blobs := blobs s; meta := meta s; index := []; heap := []; jobs := []; deletes := []; nonce := nonce s |}).
  Definition restart (s : st) : option st := restart_in (meta s) s.

  Definition tamper (name c : ct) (s : store) : store := map (fun e => if ct_eqb (fst e) name then (fst e, c) else e) s.

  (* None = the store fails to start *)
  Definition step (s : st) (o : op) : option st :=
    match o with
    | OReceive p => Some (receive p s)
    | OReceiveFail at_meta p =>
        match ilookup p (index s) with
        | Some _ => Some s
        | None =>
            if at_meta then
              Some {| blobs := sput (CData p (nonce s)) (blobs s); meta := meta s; index := index s; heap := heap s; jobs := jobs s;
                      deletes := deletes s; nonce := nonce s + 2 |}
            else Some s
        end
    | OJobUpload => Some (job_upload s)
    | OJobAbort => Some {| blobs := blobs s; meta := meta s; index := index s; heap := heap s; jobs := tl (jobs s); deletes := deletes s; nonce := nonce s |}
    | OJobDelete ok => Some (job_delete ok s)
    | ORestart => restart s
    | OTamperBlob name c => Some {| blobs := tamper name c (blobs s); meta := meta s; index := index s; heap := heap s; jobs := jobs s; deletes := deletes s; nonce := nonce s |}
    | OTamperMeta name c => Some {| blobs := blobs s; meta := tamper name c (meta s); index := index s; heap := heap s; jobs := jobs s; deletes := deletes s; nonce := nonce s |}
    end.

  Fixpoint run (s : st) (os : list op) : option st :=
    match os with [] => Some s | o :: r => match step s o with Some s' => run s' r | None => None end end.

  (* Fetch: index, fetch the ciphertext, re-hash it against its name, decrypt *)
  Inductive fetched := FPlain (p : N) | FMissing | FFail.
  Definition fetch (p : N) (s : st) : fetched :=
    match ilookup p (index s) with
    | None => FMissing
    | Some name =>
        match slookup name (blobs s) with
        | None => FFail
        | Some c => if ct_eqb c name then match c with CData q _ => FPlain q | _ => FFail end else FFail
        end
    end.
End Params.

Definition init : st := {| blobs := []; meta := []; index := []; heap := []; jobs := []; deletes := []; nonce := 0 |}.

(* C17 — the share handler (pkg/server/share.go handleGetViaSharing): which request chains are served without credentials.
   Blobs are numbers.  What a blob links to, per schema field, is a fact about the blob; which of those fields the handler's
   link check consults is regenerated from the source (Generated/Consts.v). *)
From Coq Require Import List NArith Bool.
From PK.Generated Require Import Consts.
Import ListNotations.

Inductive node :=
| NShare (target : N) (transitive expired : bool)     (* a share claim (authType haveref); target 0 = none (search share) *)
| NSchema (parts dir members merge : list N)          (* file/bytes parts; directory entries; static-set members; static-set mergeSets *)
| NOther.                                             (* anything else, whatever refs its bytes may mention *)

Definition store := list (N * node).
Definition lookup (b : N) (s : store) : option node :=
  match find (fun e => N.eqb (fst e) b) s with Some e => Some (snd e) | None => None end.
Definition memN (b : N) (l : list N) : bool := existsb (N.eqb b) l.

(* the links of the statement: parts, entries, members and sub-sets *)
Definition links_spec (n : node) : list N :=
  match n with NSchema parts dir members merge => parts ++ dir ++ members ++ merge | _ => [] end.
(* the links bytesHaveSchemaLink looks at, field by field as the source regenerated today does *)
Definition links_impl (n : node) : list N :=
  match n with
  | NSchema parts dir members merge =>
      (if share_links_byte_parts then parts else []) ++ (if share_links_dir_entries then dir else []) ++
      (if share_links_set_members then members else []) ++ (if share_links_merge_sets then merge else [])
  | _ => []
  end.

Inductive verdict := VServed (b : N) | VNotFound | VBad | VUnauth.

Section Serve.
  Variable links : node -> list N.
  Variable st : store.
  Variable deleted : list N.

  (* the hops after the share: [cur] has been authorised; each further step needs a link from cur *)
  Fixpoint hops (cur : N) (rest : list N) : verdict :=
    match rest with
    | [] => match lookup cur st with Some _ => VServed cur | None => VNotFound end
    | nxt :: rest' =>
        match lookup cur st with
        | None => VUnauth                                   (* via blob cannot be fetched *)
        | Some n => if memN nxt (links n) then hops nxt rest' else VUnauth
        end
    end.

  Definition serve (get : bool) (chain : list N) : verdict :=
    if negb get then VBad else
    match chain with
    | [] => VBad
    | c0 :: rest =>
        if memN c0 deleted then VUnauth else
        match lookup c0 st with
        | Some (NShare t tr ex) =>
            if ex then VUnauth else
            match rest with
            | [] => VServed c0
            | c1 :: rest' =>
                if negb (N.eqb c1 t) || N.eqb t 0 then VUnauth
                else if negb tr && match rest' with [] => false | _ => true end then VUnauth
                else hops c1 rest'
            end
        | _ => VUnauth
        end
    end.
End Serve.

(* C02 — the verified receive path (pkg/blobserver/receive.go), the consume-then-commit half of the backends'
   ReceiveBlob, and the decision logic of the PUT and multipart upload handlers (handlers/upload.go).
   A source reader is abstracted to: how many bytes it delivers before it ends (any fragmentation), how it ends
   (clean EOF or an error), and [hm n] = "the first n bytes hash to the offered ref under the ref's own hash". *)
From Coq Require Import List NArith Bool.
From PK.Generated Require Import Consts.
Import ListNotations.
Local Open Scope N_scope.

Inductive term := TEof | TErr.
Record reader := { total : N; fin : term; hm : N -> bool }.

Inductive verdict := VOk (size : N) | VCorrupt | VUnsupported | VOther.

(* what a backend sees through LimitReader(MaxBlobSize) + checkHashReader when it reads until the stream ends *)
Inductive seen := SClean (n : N) | SCorrupt (n : N) | SError (n : N).
Definition through_checks (maxb : N) (rd : reader) : seen :=
  if maxb <=? total rd then (if hm rd maxb then SClean maxb else SCorrupt maxb)   (* LimitReader ends the stream at maxb *)
  else match fin rd with
       | TEof => if hm rd (total rd) then SClean (total rd) else SCorrupt (total rd)
       | TErr => SError (total rd)
       end.

(* store: present refs (by id) with sizes; hub: refs announced *)
Record store := { present : list (N * N); hub : list N }.
Definition lookup_ref (r : N) (s : store) : option N :=
  match find (fun p => fst p =? r) (present s) with Some p => Some (snd p) | None => None end.

(* ReceiveBlob of a backend that reads its source to the end and commits only after a clean end
   (memory, files, diskpacked, blobpacked, replica, namespace, proxycache, cond, encrypt after the D23 fix) *)
Definition backend_receive (s : store) (r : N) (sn : seen) : store * option N :=
  match sn with
  | SClean n =>
      (match lookup_ref r s with
       | Some _ => s
       | None => {| present := (r, n) :: present s; hub := hub s |}
       end, Some n)
  | _ => (s, None)
  end.

(* blobserver.Receive *)
Definition receive (maxb : N) (supported : bool) (s : store) (r : N) (rd : reader) : store * verdict :=
  if negb supported then (s, VUnsupported) else
  let sn := through_checks maxb rd in
  match backend_receive s r sn with
  | (s', Some n) => ({| present := present s'; hub := r :: hub s' |}, VOk n)
  | (s', None) => (s', match sn with SCorrupt _ => VCorrupt | _ => VOther end)
  end.

(* ---- PUT handler ---- *)
Inductive status := S204 | S400 | S500.
Definition put_handler (maxb : N) (content_length : option N) (parses supported : bool) (s : store) (r : N) (rd : reader)
  : store * status :=
  match content_length with
  | Some cl => if maxb <? cl then (s, S400) else
      if negb parses then (s, S400) else if negb supported then (s, S400) else
      match receive maxb supported s r rd with
      | (s', VOk _) => (s', S204) | (s', VCorrupt) => (s', S400) | (s', _) => (s', S500) end
  | None =>
      if negb parses then (s, S400) else if negb supported then (s, S400) else
      match receive maxb supported s r rd with
      | (s', VOk _) => (s', S204) | (s', VCorrupt) => (s', S400) | (s', _) => (s', S500) end
  end.

(* ---- multipart handler: one entry per form part ---- *)
Record part := { p_parses : bool; p_supported : bool; p_ref : N; p_rd : reader }.
Fixpoint multipart (maxb : N) (s : store) (ps : list part) : store * list (N * N) (* received: ref, size *) :=
  match ps with
  | [] => (s, [])
  | p :: rest =>
      if negb (p_parses p) then multipart maxb s rest            (* "Ignoring form key": continue *)
      else match receive maxb (p_supported p) s (p_ref p) (p_rd p) with
           | (s', VOk n) => let '(s'', l) := multipart maxb s' rest in (s'', (p_ref p, n) :: l)
           | (s', _) => (s', [])                                  (* error: break *)
           end
  end.

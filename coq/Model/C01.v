(* C01 — storage backends and their compositions as machines over a common (untyped) state tree.
   Leaves (memory, files/localdisk, diskpacked, blobpacked below the packing threshold, encrypt) are maps from
   blobref text to bytes; the combinators are transcribed from pkg/blobserver/{replica,shard,union,overlay,
   namespace,proxycache,cond}. SPEC = the leaf machine itself (the reference map). *)
From Coq Require Import List NArith ZArith Bool.
From PK.Base Require Import Bytes Lex SortedMap.
From PK.Model Require Import Merge C12.
Import ListNotations.
Local Open Scope N_scope.

Inductive cfg :=
| Leaf (can_remove : bool)
| Replica (subs : list cfg)
| Shard (subs : list cfg)
| Union (subs : list cfg)
| Overlay (has_deleted : bool) (lower upper : cfg)
| Namespace (master : cfg)
| ProxyCache (cache origin : cfg)
| Cond (a b : cfg).

Inductive st := SLeaf (m : smap) | SNode (kids : list st) (aux : smap).

Inductive op :=
| Recv (r b : bytes) (schema : bool)
| Fetch (r : bytes)
| Stat (rs : list bytes)
| Enum (cursor : bytes) (limit : nat)
| Remove (rs : list bytes).

Inductive err := ENotFound | EReadonly | ENotImpl | EOther.
Inductive out := ORecv (sz : N) | OBytes (b : bytes) | OStat (l : smap) | OEnum (l : smap) | OOk | OErr (e : err).

Definition machine := st -> op -> st * out.

Definition blen (b : bytes) : N := N.of_nat (length b).
Definition sized (m : smap) : smap := map (fun p => (fst p, [blen (snd p)])) m.

(* ---------- leaf = the reference map ---------- *)
(* stat callbacks arrive in no particular order: results are kept as a sorted, duplicate-free map *)
Definition canon (l : smap) : smap := fold_right (fun p m => insert (fst p) (snd p) m) [] l.
Definition stat_map (m : smap) (rs : list bytes) : smap :=
  canon (flat_map (fun r => match lookup r m with Some b => [(r, [blen b])] | None => [] end) rs).

Definition leaf (can_remove : bool) : machine := fun s o =>
  match s with
  | SLeaf m =>
      match o with
      | Recv r b _ => (SLeaf (match lookup r m with Some _ => m | None => insert r b m end), ORecv (blen b))
      | Fetch r => (s, match lookup r m with Some b => OBytes b | None => OErr ENotFound end)
      | Stat rs => (s, OStat (stat_map m rs))
      | Enum c n => (s, OEnum (firstn n (after c (sized m))))
      | Remove rs => if can_remove then (SLeaf (fold_left (fun m r => remove r m) rs m), OOk) else (s, OErr ENotImpl)
      end
  | _ => (s, OErr EOther)
  end.

(* ---------- helpers ---------- *)
Fixpoint map2 {A B C} (f : A -> B -> C) (l1 : list A) (l2 : list B) : list C :=
  match l1, l2 with
  | a :: r1, b :: r2 => f a b :: map2 f r1 r2
  | _, _ => []
  end.
Definition kid_steps (ms : list machine) (ss : list st) (o : op) : list (st * out) := map2 (fun m s => m s o) ms ss.

Definition is_recv_ok (o : out) : bool := match o with ORecv _ => true | _ => false end.
Definition is_ok (o : out) : bool := match o with OOk => true | _ => false end.
Definition stat_list (o : out) : smap := match o with OStat l => l | _ => [] end.
Definition enum_list (o : out) : smap := match o with OEnum l => l | _ => [] end.
Definition has_err (os : list out) : bool := existsb (fun o => match o with OErr _ => true | _ => false end) os.

(* ordered fallback: stop at the first kid that answers; later kids are not called *)
Fixpoint fetch_fold (ms : list machine) (ss : list st) (r : bytes) : list st * out :=
  match ms, ss with
  | m :: ms', s :: ss' =>
      let '(s1, o) := m s (Fetch r) in
      match o with
      | OBytes b => (s1 :: ss', OBytes b)
      | _ => let '(rest, o') := fetch_fold ms' ss' r in (s1 :: rest, match ms' with [] => o | _ => o' end)
      end
  | _, _ => (ss, OErr ENotFound)
  end.

(* ---------- replica (all replicas written and read, minWritesForSuccess = n) ----------
   Stat: the first-reporter-wins de-duplication (C12.stat_dedupe, proved once-only in C12) followed by the
   order-free view of the callbacks is the same sorted map as [canon] of all reports. *)
Definition replica (ms : list machine) : machine := fun s o =>
  match s with
  | SNode ks aux =>
      match o with
      | Recv r b _ =>
          let rs := kid_steps ms ks o in
          (SNode (map fst rs) aux, if forallb is_recv_ok (map snd rs) then ORecv (blen b) else OErr EOther)
      | Fetch r => let '(ks', x) := fetch_fold ms ks r in (SNode ks' aux, x)
      | Stat rs =>
          let res := kid_steps ms ks o in
          (SNode (map fst res) aux,
           if has_err (map snd res) then OErr EOther
           else OStat (canon (concat (map (fun x => stat_list (snd x)) res))))
      | Enum c n =>
          let res := kid_steps ms ks o in
          (SNode (map fst res) aux,
           if has_err (map snd res) then OErr EOther else OEnum (menum n (map (fun x => enum_list (snd x)) res) None))
      | Remove rs =>
          let res := kid_steps ms ks o in
          (SNode (map fst res) aux, if existsb is_ok (map snd res) then OOk else OErr EOther)
      end
  | _ => (s, OErr EOther)
  end.

(* ---------- shard ---------- *)
Definition hexv (c : N) : N :=
  if (48 <=? c) && (c <=? 57) then c - 48 else if (97 <=? c) && (c <=? 102) then c - 87 else 0.
Fixpoint after_dash (s : bytes) : bytes := match s with [] => [] | c :: r => if c =? 45 then r else after_dash r end.
(* Ref.Sum32: the first four digest bytes, big endian *)
Definition sum32 (r : bytes) : N := fold_left (fun a c => 16 * a + hexv c) (firstn 8 (after_dash r)) 0.
Definition route (n : nat) (r : bytes) : nat := N.to_nat (sum32 r mod N.of_nat n).

Fixpoint update_nth {A} (i : nat) (x : A) (l : list A) : list A :=
  match l, i with
  | [], _ => []
  | _ :: r, O => x :: r
  | y :: r, S j => y :: update_nth j x r
  end.

Fixpoint seq_map2 {A B C} (f : nat -> A -> B -> C) (i : nat) (l1 : list A) (l2 : list B) : list C :=
  match l1, l2 with
  | a :: r1, b :: r2 => f i a b :: seq_map2 f (S i) r1 r2
  | _, _ => []
  end.

Definition shard (ms : list machine) : machine := fun s o =>
  match s with
  | SNode ks aux =>
      let n := length ms in
      let single (r : bytes) :=
        let i := route n r in
        match nth_error ms i, nth_error ks i with
        | Some m, Some k => let '(k', x) := m k o in (SNode (update_nth i k' ks) aux, x)
        | _, _ => (s, OErr EOther)
        end in
      match o with
      | Recv r _ _ => single r
      | Fetch r => single r
      | Stat rs =>
          let res := seq_map2 (fun i m k => m k (Stat (filter (fun r => Nat.eqb (route n r) i) rs))) 0 ms ks in
          (SNode (map fst res) aux,
           if has_err (map snd res) then OErr EOther else OStat (canon (concat (map (fun x => stat_list (snd x)) res))))
      | Enum c lim =>
          let res := kid_steps ms ks o in
          (SNode (map fst res) aux,
           if has_err (map snd res) then OErr EOther else OEnum (menum lim (map (fun x => enum_list (snd x)) res) None))
      | Remove rs =>
          let res := seq_map2 (fun i m k => m k (Remove (filter (fun r => Nat.eqb (route n r) i) rs))) 0 ms ks in
          (SNode (map fst res) aux, if has_err (map snd res) then OErr EOther else OOk)
      end
  | _ => (s, OErr EOther)
  end.

(* ---------- union (read-only) ---------- *)
Definition first_bytes (os : list out) : out :=
  match find (fun o => match o with OBytes _ => true | _ => false end) os with
  | Some o => o
  | None => match os with o :: _ => o | [] => OErr ENotFound end
  end.

Definition union_m (ms : list machine) : machine := fun s o =>
  match s with
  | SNode ks aux =>
      match o with
      | Recv _ _ _ => (s, OErr EReadonly)
      | Remove _ => (s, OErr EReadonly)
      | Fetch r => let res := kid_steps ms ks o in (SNode (map fst res) aux, first_bytes (map snd res))
      | Stat rs =>
          let res := kid_steps ms ks o in
          (SNode (map fst res) aux,
           if has_err (map snd res) then OErr EOther
           else OStat (canon (concat (map (fun x => stat_list (snd x)) res))))
      | Enum c n =>
          let res := kid_steps ms ks o in
          (SNode (map fst res) aux,
           if has_err (map snd res) then OErr EOther else OEnum (menum n (map (fun x => enum_list (snd x)) res) None))
      end
  | _ => (s, OErr EOther)
  end.

(* ---------- overlay ---------- *)
(* number of entries kept anywhere in a state tree: bounds what any store can enumerate, hence the rounds of the
   refill loop below (overlay.EnumerateBlobs loops until a round sees nothing; the cursor advances in every round) *)
Fixpoint size_of (s : st) : nat :=
  match s with
  | SLeaf m => length m
  | SNode ks aux => fold_right (fun k a => size_of k + a)%nat (length aux) ks
  end.
Definition one : bytes := [49].
Definition not_deleted (d : smap) (p : bytes * bytes) : bool := match lookup (fst p) d with Some _ => false | None => true end.

(* the refill loop of overlay.EnumerateBlobs; each round = one MergedEnumerate over [lower; upper] *)
Fixpoint overlay_enum (fuel : nat) (ml mu : machine) (sl su : st) (d : smap) (cursor : bytes) (limit : nat) : st * st * smap :=
  match fuel with
  | O => (sl, su, [])
  | S f =>
      match limit with
      | O => (sl, su, [])
      | _ =>
          let '(sl1, ol) := ml sl (Enum cursor limit) in
          let '(su1, ou) := mu su (Enum cursor limit) in
          let batch := menum limit [enum_list ol; enum_list ou] None in
          match batch with
          | [] => (sl1, su1, [])
          | _ =>
              let keep := filter (not_deleted d) batch in
              let '(sl2, su2, rest) := overlay_enum f ml mu sl1 su1 d (fst (last batch ([], []))) (limit - length keep) in
              (sl2, su2, keep ++ rest)
          end
      end
  end.

Definition overlay (has_del : bool) (ml mu : machine) : machine := fun s o =>
  match s with
  | SNode [sl; su] d =>
      match o with
      | Recv r b _ =>
          let '(su', x) := mu su o in
          (SNode [sl; su'] (if is_recv_ok x && has_del then remove r d else d), x)
      | Remove rs =>
          if negb has_del then (s, OErr ENotImpl) else
          let '(su', x) := mu su o in
          if is_ok x then (SNode [sl; su'] (fold_left (fun d r => insert r one d) rs d), OOk)
          else (SNode [sl; su'] d, x)
      | Fetch r =>
          match lookup r d with
          | Some _ => (s, OErr ENotFound)
          | None =>
              let '(su', x) := mu su o in
              match x with
              | OErr ENotFound => let '(sl', y) := ml sl o in (SNode [sl'; su'] d, y)
              | _ => (SNode [sl; su'] d, x)
              end
          end
      | Stat rs =>
          let ex := filter (fun r => match lookup r d with Some _ => false | None => true end) rs in
          let '(su', xu) := mu su (Stat ex) in
          match xu with
          | OStat lu =>
              let lowerq := filter (fun r => negb (mem r (map fst lu))) ex in
              let '(sl', xl) := ml sl (Stat lowerq) in
              (SNode [sl'; su'] d, match xl with OStat ll => OStat (canon (lu ++ ll)) | _ => xl end)
          | _ => (SNode [sl; su'] d, xu)
          end
      | Enum c n =>
          let '(sl', su', l) := overlay_enum (S (S (n + size_of sl + size_of su))) ml mu sl su d c n in (SNode [sl'; su'] d, OEnum l)
      end
  | _ => (s, OErr EOther)
  end.

(* ---------- namespace ---------- *)
Definition namespace (mm : machine) : machine := fun s o =>
  match s with
  | SNode [sm] inv =>
      match o with
      | Recv r b _ =>
          match lookup r inv with
          | Some _ => (s, ORecv (blen b))
          | None =>
              let '(sm', x) := mm sm o in
              (SNode [sm'] (if is_recv_ok x then insert r [blen b] inv else inv), x)
          end
      | Fetch r =>
          match lookup r inv with
          | None => (s, OErr ENotFound)
          | Some sz =>
              let '(sm', x) := mm sm o in
              (SNode [sm'] inv, match x with
                                | OBytes b => if beqb sz [blen b] then x else OErr ENotFound
                                | _ => x end)
          end
      | Stat rs => (s, OStat (canon (flat_map (fun r => match lookup r inv with Some sz => [(r, sz)] | None => [] end) rs)))
      | Enum c n => (s, OEnum (firstn n (after c inv)))
      | Remove rs => (SNode [sm] (fold_left (fun i r => remove r i) rs inv), OOk)
      end
  | _ => (s, OErr EOther)
  end.

(* ---------- proxycache (eviction not modelled: it only shrinks the cache, which stays a subset of origin) ---------- *)
Definition proxycache (mc mo : machine) : machine := fun s o =>
  match s with
  | SNode [sc; so] aux =>
      match o with
      | Fetch r =>
          let '(sc1, x) := mc sc o in
          match x with
          | OBytes _ => (SNode [sc1; so] aux, x)
          | _ =>
              let '(so1, y) := mo so o in
              match y with
              | OBytes b => let '(sc2, _) := mc sc1 (Recv r b false) in (SNode [sc2; so1] aux, y)
              | _ => (SNode [sc1; so1] aux, y)
              end
          end
      | Stat rs =>
          let '(sc1, x) := mc sc o in
          match x with
          | OStat lc =>
              let need := filter (fun r => negb (mem r (map fst lc))) rs in
              match need with
              | [] => (SNode [sc1; so] aux, x)
              | _ => let '(so1, y) := mo so (Stat need) in
                     (SNode [sc1; so1] aux, match y with OStat lo => OStat (canon (lc ++ lo)) | _ => y end)
              end
          | _ => (SNode [sc1; so] aux, x)
          end
      | Recv r b sc0 =>
          let '(so1, x) := mo so o in
          if is_recv_ok x then let '(sc1, _) := mc sc o in (SNode [sc1; so1] aux, x) else (SNode [sc; so1] aux, x)
      | Remove rs =>
          let '(sc1, x) := mc sc o in
          let '(so1, y) := mo so o in
          (SNode [sc1; so1] aux, if is_ok x then y else x)
      | Enum c n => let '(so1, y) := mo so o in (SNode [sc; so1] aux, y)
      end
  | _ => (s, OErr EOther)
  end.

(* ---------- cond: write {if isSchema then replica[a,b] else a}, read a, remove replica[a,b] ---------- *)
Definition cond (ma mb : machine) : machine := fun s o =>
  match s with
  | SNode [sa; sb] aux =>
      match o with
      | Recv r b true =>
          let '(sa1, x) := ma sa o in
          let '(sb1, y) := mb sb o in
          (SNode [sa1; sb1] aux, if is_recv_ok x && is_recv_ok y then ORecv (blen b) else OErr EOther)
      | Remove rs =>
          let '(sa1, x) := ma sa o in
          let '(sb1, y) := mb sb o in
          (SNode [sa1; sb1] aux, if is_ok x || is_ok y then OOk else OErr EOther)
      | _ => let '(sa1, x) := ma sa o in (SNode [sa1; sb] aux, x)
      end
  | _ => (s, OErr EOther)
  end.

Fixpoint sem (c : cfg) : machine :=
  match c with
  | Leaf cr => leaf cr
  | Replica subs => replica (map sem subs)
  | Shard subs => shard (map sem subs)
  | Union subs => union_m (map sem subs)
  | Overlay d l u => overlay d (sem l) (sem u)
  | Namespace m => namespace (sem m)
  | ProxyCache c o => proxycache (sem c) (sem o)
  | Cond a b => cond (sem a) (sem b)
  end.

Fixpoint init (c : cfg) : st :=
  match c with
  | Leaf _ => SLeaf []
  | Replica subs | Shard subs | Union subs => SNode (map init subs) []
  | Overlay _ l u => SNode [init l; init u] []
  | Namespace m => SNode [init m] []
  | ProxyCache c o => SNode [init c; init o] []
  | Cond a b => SNode [init a; init b] []
  end.

Fixpoint run (m : machine) (s : st) (ops : list op) : list out :=
  match ops with
  | [] => []
  | o :: r => let '(s', x) := m s o in x :: run m s' r
  end.

Fixpoint final (m : machine) (s : st) (ops : list op) : st :=
  match ops with
  | [] => s
  | o :: r => final m (fst (m s o)) r
  end.

(* ranged fetch as every SubFetcher answers it on the fetched bytes:
   error iff offset < 0 or offset > size; otherwise bytes[off : min(off+len, size)] *)
Definition subfetch (b : bytes) (off len : Z) : option bytes :=
  if (off <? 0)%Z || (len <? 0)%Z || (Z.of_nat (length b) <? off)%Z then None
  else Some (firstn (Z.to_nat len) (skipn (Z.to_nat off) b)).

(* direct insertion into the i-th leaf (depth-first numbering): how the harness pre-populates read-only leaves *)
Fixpoint preload1 (s : st) (i : nat) (r b : bytes) {struct s} : st * option nat :=
  match s with
  | SLeaf m => match i with O => (SLeaf (match lookup r m with Some _ => m | None => insert r b m end), None) | S j => (s, Some j) end
  | SNode ks aux =>
      let fix go (ks : list st) (i : nat) : list st * option nat :=
        match ks with
        | [] => ([], Some i)
        | k :: rest =>
            match preload1 k i r b with
            | (k', None) => (k' :: rest, None)
            | (k', Some j) => let '(rest', x) := go rest j in (k' :: rest', x)
            end
        end in
      let '(ks', x) := go ks i in (SNode ks' aux, x)
  end.
Definition preload (s : st) (l : list (nat * bytes * bytes)) : st :=
  fold_left (fun s p => fst (preload1 s (fst (fst p)) (snd (fst p)) (snd p))) l s.

Fixpoint leaf_maps (s : st) : list smap :=
  match s with
  | SLeaf m => [m]
  | SNode ks _ => (fix go (ks : list st) : list smap := match ks with [] => [] | k :: r => leaf_maps k ++ go r end) ks
  end.

module verif/genconsts

go 1.23

// genconsts: the translator part of the tie between /repo's source and the Rocq model.
// It parses Go source files of /repo with go/ast and copies the constants and literal
// tables the theorems depend on into coq/Generated/Consts.v.  No Go code is executed.
package main

import (
	"flag"
	"fmt"
	"go/ast"
	"go/parser"
	"go/token"
	"math/big"
	"os"
	"path/filepath"
	"sort"
	"strconv"
	"strings"
)

type want struct {
	file string // relative to repo root
	kind string // int | string | mapkeys | strlist | bool-hasident
	goName string
	coqName string
}

var wants = []want{
	{"pkg/constants/constants.go", "int", "MaxBlobSize", "max_blob_size"},
	{"pkg/blob/ref.go", "int", "maxOtherDigestLen", "max_other_digest_len"},
	{"pkg/blob/ref.go", "string", "hexDigit", "hex_digit"},
	{"pkg/blob/ref.go", "mapkeys", "testRefType", "test_ref_types"},
	{"pkg/blob/ref.go", "mapkeys", "metaFromString", "known_hash_names"},
	{"pkg/sorted/kv.go", "int", "MaxKeySize", "max_key_size"},
	{"pkg/sorted/kv.go", "int", "MaxValueSize", "max_value_size"},
	{"pkg/blobserver/handlers/stat.go", "int", "maxStatBlobs", "max_stat_blobs"},
	{"pkg/blobserver/handlers/enumerate.go", "int", "defaultEnumerateSize", "default_enumerate_size"},
	{"pkg/blobserver/handlers/enumerate.go", "int", "defaultMaxEnumerate", "default_max_enumerate"},
	{"pkg/blobserver/encrypt/meta.go", "int", "SmallMetaCountLimit", "small_meta_count_limit"},
	{"pkg/blobserver/encrypt/meta.go", "int", "FullMetaBlobSize", "full_meta_blob_size"},
	{"pkg/schema/filewriter.go", "int", "maxBlobSize", "chunk_max_blob_size"},
	{"pkg/schema/filewriter.go", "int", "firstChunkSize", "first_chunk_size"},
	{"pkg/schema/filewriter.go", "int", "tooSmallThreshold", "too_small_threshold"},
	{"pkg/schema/filewriter.go", "int", "bufioReaderSize", "bufio_reader_size"},
	{"pkg/schema/schema.go", "int", "maxStaticSetMembers", "max_static_set_members"},
	{"pkg/blobserver/blobpacked/blobpacked.go", "int", "packThreshold", "pack_threshold"},
	{"pkg/jsonsign/verify.go", "string", "sigSeparator", "sig_separator"},
	{"pkg/serverinit/serverinit.go", "switchcases", "handlerTypeWantsAuth", "handler_types_want_auth"},
	// true iff parsePermanodeContinueToken reads the time with strconv.ParseInt (negative = pre-1970 times parse)
	{"pkg/search/query.go", "calls:strconv.ParseInt", "parsePermanodeContinueToken", "continue_token_signed"},
	// which schema accessors the share handler's link check consults
	{"pkg/server/share.go", "selcalls:ByteParts", "bytesHaveSchemaLink", "share_links_byte_parts"},
	{"pkg/server/share.go", "selcalls:DirectoryEntries", "bytesHaveSchemaLink", "share_links_dir_entries"},
	{"pkg/server/share.go", "selcalls:StaticSetMembers", "bytesHaveSchemaLink", "share_links_set_members"},
	{"pkg/server/share.go", "selcalls:StaticSetMergeSets", "bytesHaveSchemaLink", "share_links_merge_sets"},
	// diskpacked: does walkPack look at the file's size (Stat) — the end-of-file check for a torn last record
	{"pkg/blobserver/diskpacked/reindex.go", "selcalls:Stat", "walkPack", "dp_walk_checks_file_size"},
	// diskpacked: does RemoveBlobs commit the index deletion before it touches the pack (first CommitBatch before first delete call)
	{"pkg/blobserver/diskpacked/diskpacked.go", "callorder:CommitBatch<delete", "RemoveBlobs", "dp_remove_commits_index_first"},
	// diskpacked: inside delete(), is the header rewritten (first WriteAt) before the data is destroyed (first punchHole / CopyN)?
	{"pkg/blobserver/diskpacked/dele.go", "callorder:WriteAt<punchHole", "delete", "dp_delete_header_before_punch"},
	{"pkg/blobserver/diskpacked/dele.go", "firstmut:WriteAt", "delete", "dp_delete_header_before_zero"},
	// enumerate handler: does the long-poll loop run while the deadline has not passed (condition uses time.Now().Before)?
	{"pkg/blobserver/handlers/enumerate.go", "forcond:Before", "handleEnumerateBlobs", "enum_wait_loop_runs"},
	// client: does the callback given to doStat inside StatBlobs leave the reporting to the helper (it does not call fn itself)?
	{"pkg/client/upload.go", "nofncall:doStat", "StatBlobs", "client_stat_reports_once"},
	// stat helper: inside the loop over the blobs, is the cancellation looked at (select) before a gate slot is taken (Start)?
	{"pkg/blobserver/stat.go", "selectbefore:Start", "StatBlobsParallelHelper", "stat_helper_checks_before_start"},
	// diskpacked append: is the index row written (first Set) before the roll-over (first nextPack)?
	{"pkg/blobserver/diskpacked/diskpacked.go", "callorder:Set<nextPack", "append", "dp_append_index_before_rollover"},
	// diskpacked ReceiveBlob's duplicate rule: is the size of the pack file compared (>=) with an expression that mentions the blob's size (the END of the indexed extent)?
	{"pkg/blobserver/diskpacked/diskpacked.go", "gecmp:Size:size", "ReceiveBlob", "dp_dup_checks_extent_end"},
	// encrypt ReceiveBlob: is the meta blob recorded (first recordMeta, right after it was written) before the index row is set (first Set)?
	{"pkg/blobserver/encrypt/encrypt.go", "callorder:recordMeta<Set", "ReceiveBlob", "enc_meta_before_index"},
	// C19 (D52): the enumeration source of the start-up full sync closes its channel, like the queue / pending sources
	{"pkg/server/sync.go", "identcalls:close", "blobserverEnumerator", "sync_full_source_closes"},
	{"pkg/server/sync.go", "identcalls:close", "enumeratePendingBlobs", "sync_pending_source_closes"},
	// C14 (D50): overlay's two two-step writers take the store's mutex
	{"pkg/blobserver/overlay/overlay.go", "selcalls:Lock", "ReceiveBlob", "overlay_receive_serialized"},
	{"pkg/blobserver/overlay/overlay.go", "selcalls:Lock", "RemoveBlobs", "overlay_remove_serialized"},
	// blobpacked: does RemoveBlobs hand the loose store every blob it was given (and not only those without a meta row)?
	{"pkg/blobserver/blobpacked/blobpacked.go", "removeall:small", "RemoveBlobs", "bp_remove_loose_of_all"},
	// every handler type registered anywhere under pkg/ (first argument of blobserver.RegisterHandlerConstructor)
	{"pkg", "registered:RegisterHandlerConstructor", "", "registered_handler_types"},
}

type fileInfo struct {
	f      *ast.File
	consts map[string]ast.Expr
	vars   map[string]ast.Expr
	funcs  map[string]*ast.FuncDecl
}

func load(path string) (*fileInfo, error) {
	fset := token.NewFileSet()
	f, err := parser.ParseFile(fset, path, nil, 0)
	if err != nil {
		return nil, err
	}
	fi := &fileInfo{f: f, consts: map[string]ast.Expr{}, vars: map[string]ast.Expr{}, funcs: map[string]*ast.FuncDecl{}}
	for _, d := range f.Decls {
		switch d := d.(type) {
		case *ast.GenDecl:
			for _, s := range d.Specs {
				vs, ok := s.(*ast.ValueSpec)
				if !ok {
					continue
				}
				for i, n := range vs.Names {
					if i < len(vs.Values) {
						if d.Tok == token.CONST {
							fi.consts[n.Name] = vs.Values[i]
						} else {
							fi.vars[n.Name] = vs.Values[i]
						}
					}
				}
			}
		case *ast.FuncDecl:
			fi.funcs[d.Name.Name] = d
		}
	}
	return fi, nil
}

func (fi *fileInfo) evalInt(e ast.Expr) (*big.Int, error) {
	switch e := e.(type) {
	case *ast.BasicLit:
		if e.Kind == token.INT {
			v, ok := new(big.Int).SetString(strings.ReplaceAll(e.Value, "_", ""), 0)
			if !ok {
				return nil, fmt.Errorf("bad int %q", e.Value)
			}
			return v, nil
		}
		if e.Kind == token.CHAR {
			r, _, _, err := strconv.UnquoteChar(e.Value[1:len(e.Value)-1], '\'')
			return big.NewInt(int64(r)), err
		}
	case *ast.ParenExpr:
		return fi.evalInt(e.X)
	case *ast.Ident:
		if x, ok := fi.consts[e.Name]; ok {
			return fi.evalInt(x)
		}
		if x, ok := fi.vars[e.Name]; ok {
			return fi.evalInt(x)
		}
	case *ast.CallExpr:
		if id, ok := e.Fun.(*ast.Ident); ok && id.Name == "len" && len(e.Args) == 1 {
			s, err := fi.evalString(e.Args[0])
			if err != nil {
				return nil, err
			}
			return big.NewInt(int64(len(s))), nil
		}
		// conversions like int64(x)
		if id, ok := e.Fun.(*ast.Ident); ok && len(e.Args) == 1 && strings.HasPrefix(id.Name, "int") || len(e.Args) == 1 && isIdent(e.Fun, "uint32", "uint64", "uint") {
			return fi.evalInt(e.Args[0])
		}
	case *ast.BinaryExpr:
		a, err := fi.evalInt(e.X)
		if err != nil {
			return nil, err
		}
		b, err := fi.evalInt(e.Y)
		if err != nil {
			return nil, err
		}
		r := new(big.Int)
		switch e.Op {
		case token.ADD:
			return r.Add(a, b), nil
		case token.SUB:
			return r.Sub(a, b), nil
		case token.MUL:
			return r.Mul(a, b), nil
		case token.QUO:
			return r.Quo(a, b), nil
		case token.SHL:
			return r.Lsh(a, uint(b.Int64())), nil
		case token.SHR:
			return r.Rsh(a, uint(b.Int64())), nil
		}
	}
	return nil, fmt.Errorf("cannot evaluate %T as int constant", e)
}

func isIdent(e ast.Expr, names ...string) bool {
	id, ok := e.(*ast.Ident)
	if !ok {
		return false
	}
	for _, n := range names {
		if id.Name == n {
			return true
		}
	}
	return false
}

func (fi *fileInfo) evalString(e ast.Expr) (string, error) {
	switch e := e.(type) {
	case *ast.BasicLit:
		if e.Kind == token.STRING {
			return strconv.Unquote(e.Value)
		}
	case *ast.Ident:
		if x, ok := fi.consts[e.Name]; ok {
			return fi.evalString(x)
		}
		if x, ok := fi.vars[e.Name]; ok {
			return fi.evalString(x)
		}
	case *ast.BinaryExpr:
		if e.Op == token.ADD {
			a, err := fi.evalString(e.X)
			if err != nil {
				return "", err
			}
			b, err := fi.evalString(e.Y)
			return a + b, err
		}
	case *ast.CallExpr: // []byte("...") or string("...")
		if len(e.Args) == 1 {
			return fi.evalString(e.Args[0])
		}
	}
	return "", fmt.Errorf("cannot evaluate %T as string constant", e)
}

func coqString(s string) (string, error) {
	for _, c := range []byte(s) {
		if c < 32 || c > 126 {
			return "", fmt.Errorf("non-printable byte in %q", s)
		}
	}
	return `"` + strings.ReplaceAll(s, `"`, `""`) + `"`, nil
}

func (fi *fileInfo) mapKeys(name string) ([]string, error) {
	e, ok := fi.vars[name]
	if !ok {
		return nil, fmt.Errorf("var %s not found", name)
	}
	cl, ok := e.(*ast.CompositeLit)
	if !ok {
		return nil, fmt.Errorf("%s is not a composite literal", name)
	}
	var keys []string
	for _, el := range cl.Elts {
		kv, ok := el.(*ast.KeyValueExpr)
		if !ok {
			return nil, fmt.Errorf("%s: element without key", name)
		}
		k, err := fi.evalString(kv.Key)
		if err != nil {
			return nil, err
		}
		keys = append(keys, k)
	}
	sort.Strings(keys)
	return keys, nil
}

// callName is the called function's or method's bare name ("" for other call forms)
func callName(ce *ast.CallExpr) string {
	switch f := ce.Fun.(type) {
	case *ast.SelectorExpr:
		return f.Sel.Name
	case *ast.Ident:
		return f.Name
	}
	return ""
}

// flatNodes walks fd's body in source order and, at every call of a function or method declared in the same file,
// continues inside that helper's body (depth-limited, each helper once per path): extracting part of a function into a
// helper of the same file does not change what the patterns below see. visit gets every node in that order.
func (fi *fileInfo) flatNodes(fd *ast.FuncDecl, visit func(ast.Node)) {
	var walk func(fd *ast.FuncDecl, depth int, onPath map[string]bool)
	walk = func(fd *ast.FuncDecl, depth int, onPath map[string]bool) {
		if fd == nil || fd.Body == nil {
			return
		}
		ast.Inspect(fd.Body, func(n ast.Node) bool {
			if n == nil {
				return true
			}
			visit(n)
			if ce, ok := n.(*ast.CallExpr); ok && depth < 3 {
				// only calls that certainly name a declaration of this file: a plain function, or a method called on
				// the enclosing function's own receiver
				name := ""
				switch f := ce.Fun.(type) {
				case *ast.Ident:
					name = f.Name
				case *ast.SelectorExpr:
					if fd.Recv != nil && len(fd.Recv.List) == 1 && len(fd.Recv.List[0].Names) == 1 && isIdent(f.X, fd.Recv.List[0].Names[0].Name) {
						name = f.Sel.Name
					}
				}
				if callee, ok := fi.funcs[name]; ok && name != "" && !onPath[name] && callee != fd {
					// arguments are evaluated before the call: walk them first, then the helper
					for _, a := range ce.Args {
						ast.Inspect(a, func(m ast.Node) bool {
							if m != nil {
								visit(m)
							}
							return true
						})
					}
					onPath[name] = true
					walk(callee, depth+1, onPath)
					delete(onPath, name)
					return false
				}
			}
			return true
		})
	}
	walk(fd, 0, map[string]bool{fd.Name.Name: true})
}

// keys of a map[string]bool composite literal whose value is the literal true
func (fi *fileInfo) mapKeysTrue(name string) ([]string, error) {
	e, ok := fi.vars[name]
	if !ok {
		return nil, fmt.Errorf("var %s not found", name)
	}
	cl, ok := e.(*ast.CompositeLit)
	if !ok {
		return nil, fmt.Errorf("%s is not a composite literal", name)
	}
	var keys []string
	for _, el := range cl.Elts {
		kv, ok := el.(*ast.KeyValueExpr)
		if !ok {
			return nil, fmt.Errorf("%s: element without key", name)
		}
		if !isIdent(kv.Value, "true") {
			continue
		}
		k, err := fi.evalString(kv.Key)
		if err != nil {
			return nil, err
		}
		keys = append(keys, k)
	}
	sort.Strings(keys)
	return keys, nil
}

// string literals of the case clauses that "return true" in a func(string) bool made of one switch
func (fi *fileInfo) switchCases(name string) ([]string, error) {
	fd, ok := fi.funcs[name]
	if !ok {
		return nil, fmt.Errorf("func %s not found", name)
	}
	var out []string
	var err error
	ast.Inspect(fd.Body, func(n ast.Node) bool {
		cc, ok := n.(*ast.CaseClause)
		if !ok {
			return true
		}
		retTrue := false
		for _, st := range cc.Body {
			if r, ok := st.(*ast.ReturnStmt); ok && len(r.Results) == 1 && isIdent(r.Results[0], "true") {
				retTrue = true
			}
		}
		if retTrue {
			for _, x := range cc.List {
				s, e := fi.evalString(x)
				if e != nil {
					err = e
				}
				out = append(out, s)
			}
		}
		return true
	})
	sort.Strings(out)
	return out, err
}

// registered scans every non-test Go file under dir for calls X.fn("literal", ...) / fn("literal", ...)
func registered(dir, fn string) ([]string, error) {
	seen := map[string]bool{}
	err := filepath.Walk(dir, func(path string, info os.FileInfo, err error) error {
		if err != nil || info.IsDir() || !strings.HasSuffix(path, ".go") || strings.HasSuffix(path, "_test.go") {
			return err
		}
		f, err := parser.ParseFile(token.NewFileSet(), path, nil, 0)
		if err != nil {
			return nil // files for other platforms / build tags may not parse alone; skip
		}
		ast.Inspect(f, func(n ast.Node) bool {
			ce, ok := n.(*ast.CallExpr)
			if !ok || len(ce.Args) == 0 {
				return true
			}
			name := ""
			switch f := ce.Fun.(type) {
			case *ast.SelectorExpr:
				name = f.Sel.Name
			case *ast.Ident:
				name = f.Name
			}
			if name != fn {
				return true
			}
			if bl, ok := ce.Args[0].(*ast.BasicLit); ok && bl.Kind == token.STRING {
				if v, err := strconv.Unquote(bl.Value); err == nil {
					seen[v] = true
				}
			}
			return true
		})
		return nil
	})
	var out []string
	for k := range seen {
		out = append(out, k)
	}
	sort.Strings(out)
	return out, err
}

func main() {
	repo := flag.String("repo", "/repo", "repository root")
	out := flag.String("out", "", "output .v file")
	flag.Parse()
	files := map[string]*fileInfo{}
	var b strings.Builder
	b.WriteString("(* GENERATED by /verif/gen/consts from /repo's Go source on every run. Do not edit. *)\n")
	b.WriteString("From Coq Require Import NArith String List.\nImport ListNotations.\nLocal Open Scope string_scope.\n\n")
	for _, w := range wants {
		if strings.HasPrefix(w.kind, "registered:") {
			names, err := registered(filepath.Join(*repo, w.file), strings.TrimPrefix(w.kind, "registered:"))
			if err != nil {
				fmt.Fprintf(os.Stderr, "genconsts: %v\n", err)
				os.Exit(2)
			}
			var qs []string
			for _, k := range names {
				cs, err := coqString(k)
				if err != nil {
					fmt.Fprintf(os.Stderr, "genconsts: %v\n", err)
					os.Exit(2)
				}
				qs = append(qs, cs)
			}
			fmt.Fprintf(&b, "(* %s/... : calls of %s *)\nDefinition %s : list string := [%s].\n", w.file, strings.TrimPrefix(w.kind, "registered:"), w.coqName, strings.Join(qs, "; "))
			continue
		}
		fi, ok := files[w.file]
		if !ok {
			var err error
			fi, err = load(filepath.Join(*repo, w.file))
			if err != nil {
				fmt.Fprintf(os.Stderr, "genconsts: %v\n", err)
				os.Exit(2)
			}
			files[w.file] = fi
		}
		fail := func(err error) {
			fmt.Fprintf(os.Stderr, "genconsts: %s %s: %v\n", w.file, w.goName, err)
			os.Exit(2)
		}
		fmt.Fprintf(&b, "(* %s : %s *)\n", w.file, w.goName)
		switch w.kind {
		case "int":
			e, ok := fi.consts[w.goName]
			if !ok {
				e, ok = fi.vars[w.goName]
			}
			if !ok {
				fail(fmt.Errorf("not found"))
			}
			v, err := fi.evalInt(e)
			if err != nil {
				fail(err)
			}
			fmt.Fprintf(&b, "Definition %s : N := %s%%N.\n", w.coqName, v.String())
		case "string":
			e, ok := fi.consts[w.goName]
			if !ok {
				e, ok = fi.vars[w.goName]
			}
			if !ok {
				fail(fmt.Errorf("not found"))
			}
			s, err := fi.evalString(e)
			if err != nil {
				fail(err)
			}
			cs, err := coqString(s)
			if err != nil {
				fail(err)
			}
			fmt.Fprintf(&b, "Definition %s : string := %s.\n", w.coqName, cs)
		case "calls:strconv.ParseInt":
			fd, ok := fi.funcs[w.goName]
			if !ok {
				fail(fmt.Errorf("func not found"))
			}
			found := false
			ast.Inspect(fd.Body, func(n ast.Node) bool {
				if se, ok := n.(*ast.SelectorExpr); ok && isIdent(se.X, "strconv") && se.Sel.Name == "ParseInt" {
					found = true
				}
				return true
			})
			fmt.Fprintf(&b, "Definition %s : bool := %v.\n", w.coqName, found)
		case "forcond:Before":
			fd, ok := fi.funcs[w.goName]
			if !ok {
				fail(fmt.Errorf("func not found"))
			}
			found := false
			ast.Inspect(fd.Body, func(n ast.Node) bool {
				if fs, ok := n.(*ast.ForStmt); ok && fs.Cond != nil {
					ast.Inspect(fs.Cond, func(m ast.Node) bool {
						if se, ok := m.(*ast.SelectorExpr); ok && se.Sel.Name == "Before" {
							found = true
						}
						return true
					})
				}
				return true
			})
			fmt.Fprintf(&b, "Definition %s : bool := %v.\n", w.coqName, found)
		case "nofncall:doStat":
			// the function is a method: find it by name among the file's declarations (methods are keyed by name too)
			fd, ok := fi.funcs[w.goName]
			if !ok {
				fail(fmt.Errorf("func not found"))
			}
			callsFn, sawLit := false, false
			ast.Inspect(fd.Body, func(n ast.Node) bool {
				ce, ok := n.(*ast.CallExpr)
				if !ok {
					return true
				}
				if se, ok := ce.Fun.(*ast.SelectorExpr); ok && se.Sel.Name == "doStat" {
					for _, a := range ce.Args {
						if fl, ok := a.(*ast.FuncLit); ok {
							sawLit = true
							ast.Inspect(fl.Body, func(m ast.Node) bool {
								if c2, ok := m.(*ast.CallExpr); ok && isIdent(c2.Fun, "fn") {
									callsFn = true
								}
								return true
							})
						}
					}
				}
				return true
			})
			fmt.Fprintf(&b, "Definition %s : bool := %v.\n", w.coqName, sawLit && !callsFn)
		case "removeall:small":
			// true iff the function calls <x>.small.RemoveBlobs(ctx, <its own second parameter>)
			fd, ok := fi.funcs[w.goName]
			if !ok {
				fail(fmt.Errorf("func not found"))
			}
			param := ""
			if ps := fd.Type.Params.List; len(ps) >= 2 && len(ps[1].Names) > 0 {
				param = ps[1].Names[0].Name
			}
			found := false
			ast.Inspect(fd.Body, func(n ast.Node) bool {
				if ce, ok := n.(*ast.CallExpr); ok && len(ce.Args) == 2 {
					if se, ok := ce.Fun.(*ast.SelectorExpr); ok && se.Sel.Name == "RemoveBlobs" {
						if inner, ok := se.X.(*ast.SelectorExpr); ok && inner.Sel.Name == "small" && isIdent(ce.Args[1], param) {
							found = true
						}
					}
				}
				return true
			})
			fmt.Fprintf(&b, "Definition %s : bool := %v.\n", w.coqName, found)
		case "selectbefore:Start":
			fd, ok := fi.funcs[w.goName]
			if !ok {
				fail(fmt.Errorf("func not found"))
			}
			// a look at the cancellation (a select statement, or a call of ctx.Err()) ahead of the first gate Start
			selSeq, startSeq, seq := 0, 0, 0
			fi.flatNodes(fd, func(n ast.Node) {
				seq++
				switch x := n.(type) {
				case *ast.SelectStmt:
					if selSeq == 0 {
						selSeq = seq
					}
				case *ast.CallExpr:
					if se, ok := x.Fun.(*ast.SelectorExpr); ok {
						if se.Sel.Name == "Start" && startSeq == 0 {
							startSeq = seq
						}
						if se.Sel.Name == "Err" && isIdent(se.X, "ctx") && selSeq == 0 {
							selSeq = seq
						}
					}
				}
			})
			fmt.Fprintf(&b, "Definition %s : bool := %v.\n", w.coqName, selSeq != 0 && startSeq != 0 && selSeq < startSeq)
		case "callorder:CommitBatch<delete", "callorder:WriteAt<punchHole", "callorder:WriteAt<CopyN", "callorder:Set<nextPack", "callorder:recordMeta<Set":
			fd, ok := fi.funcs[w.goName]
			if !ok {
				fail(fmt.Errorf("func not found"))
			}
			parts := strings.Split(strings.TrimPrefix(w.kind, "callorder:"), "<")
			first := map[string]int{}
			seq := 0
			fi.flatNodes(fd, func(n ast.Node) {
				if ce, ok := n.(*ast.CallExpr); ok {
					seq++
					if name := callName(ce); name != "" {
						if _, seen := first[name]; !seen {
							first[name] = seq
						}
					}
				}
			})
			a, okA := first[parts[0]]
			bpos, okB := first[parts[1]]
			fmt.Fprintf(&b, "Definition %s : bool := %v.\n", w.coqName, okA && okB && a < bpos)
		case "gecmp:Size:size":
			fd, ok := fi.funcs[w.goName]
			if !ok {
				fail(fmt.Errorf("func not found"))
			}
			found, good := false, false
			ast.Inspect(fd.Body, func(n ast.Node) bool {
				be, ok := n.(*ast.BinaryExpr)
				if !ok || be.Op != token.GEQ {
					return true
				}
				ce, ok := be.X.(*ast.CallExpr)
				if !ok {
					return true
				}
				se, ok := ce.Fun.(*ast.SelectorExpr)
				if !ok || se.Sel.Name != "Size" {
					return true
				}
				found = true
				ast.Inspect(be.Y, func(m ast.Node) bool {
					if s2, ok := m.(*ast.SelectorExpr); ok && s2.Sel.Name == "size" {
						good = true
					}
					return true
				})
				return true
			})
			fmt.Fprintf(&b, "Definition %s : bool := %v.\n", w.coqName, found && good)
		case "firstmut:WriteAt":
			// the first call of the body (helpers of the file included) that writes to or cuts the file is a WriteAt - the
			// tombstone header - and some other destroying call follows it: however the bytes are erased afterwards
			// (io.CopyN of zeros, a loop of WriteAt, a hole punched), the header has been rewritten before
			fd, ok := fi.funcs[w.goName]
			if !ok {
				fail(fmt.Errorf("func not found"))
			}
			var muts []string
			fi.flatNodes(fd, func(n ast.Node) {
				if ce, ok := n.(*ast.CallExpr); ok {
					switch name := callName(ce); name {
					case "WriteAt", "Write", "WriteString", "CopyN", "Copy", "Truncate", "punchHole", "PunchHole":
						muts = append(muts, name)
					}
				}
			})
			fmt.Fprintf(&b, "Definition %s : bool := %v.\n", w.coqName, len(muts) >= 2 && muts[0] == "WriteAt")
		case "identcalls:close":
			fd, ok := fi.funcs[w.goName]
			if !ok {
				fail(fmt.Errorf("func not found"))
			}
			found := false
			ast.Inspect(fd.Body, func(n ast.Node) bool {
				if ce, ok := n.(*ast.CallExpr); ok && isIdent(ce.Fun, "close") {
					found = true
				}
				return true
			})
			fmt.Fprintf(&b, "Definition %s : bool := %v.\n", w.coqName, found)
		case "selcalls:ByteParts", "selcalls:DirectoryEntries", "selcalls:StaticSetMembers", "selcalls:StaticSetMergeSets", "selcalls:Stat", "selcalls:Lock":
			fd, ok := fi.funcs[w.goName]
			if !ok {
				fail(fmt.Errorf("func not found"))
			}
			name := strings.TrimPrefix(w.kind, "selcalls:")
			found := false
			fi.flatNodes(fd, func(n ast.Node) {
				if ce, ok := n.(*ast.CallExpr); ok {
					if se, ok := ce.Fun.(*ast.SelectorExpr); ok && se.Sel.Name == name {
						found = true
					}
				}
			})
			fmt.Fprintf(&b, "Definition %s : bool := %v.\n", w.coqName, found)
		case "mapkeys", "switchcases":
			var keys []string
			var err error
			if w.kind == "mapkeys" {
				keys, err = fi.mapKeys(w.goName)
			} else {
				keys, err = fi.switchCases(w.goName)
				if err == nil && len(keys) == 0 {
					// no "case ...: return true": the same table as a map[string]bool the function indexes
					if fd := fi.funcs[w.goName]; fd != nil {
						ast.Inspect(fd.Body, func(n ast.Node) bool {
							if ix, ok := n.(*ast.IndexExpr); ok {
								if id, ok := ix.X.(*ast.Ident); ok && len(keys) == 0 {
									if ks, e := fi.mapKeysTrue(id.Name); e == nil {
										keys = ks
									}
								}
							}
							return true
						})
					}
				}
			}
			if err != nil {
				fail(err)
			}
			var qs []string
			for _, k := range keys {
				cs, err := coqString(k)
				if err != nil {
					fail(err)
				}
				qs = append(qs, cs)
			}
			fmt.Fprintf(&b, "Definition %s : list string := [%s].\n", w.coqName, strings.Join(qs, "; "))
		}
	}
	content := b.String()
	if *out == "" {
		fmt.Print(content)
		return
	}
	if old, err := os.ReadFile(*out); err == nil && string(old) == content {
		return // unchanged: keep the timestamp so make does not rebuild
	}
	if err := os.WriteFile(*out, []byte(content), 0o644); err != nil {
		fmt.Fprintln(os.Stderr, err)
		os.Exit(2)
	}
}
